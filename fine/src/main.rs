//! finesim - the fine-grained tier of the FeOxDB simulator.
//!
//! The baton scheduler of /verif/sim switches threads only at seams (locks, channels, I/O, named
//! yield points). A race whose window lies between two adjacent atomic instructions is invisible
//! there. This binary is executed by Miri, whose seeded scheduler preempts at basic-block
//! granularity: one integer (the Miri seed, repeated on argv as the scenario seed) decides the
//! scenario and the whole interleaving, so a failing run replays exactly. Memory-only stores and
//! the CLOCK cache only (no device), tiny scenarios with conservation oracles that need no search.
//!
//! usage: finesim <family> <seed> [drop-mask]      (drop-mask: bit i set = i-th generated operation removed)
//! prints one line `FINE {json}`; exit 0 = held, 1 = violation (also printed), Miri itself reports
//! undefined behaviour, deadlocks and panics.

mod ctl;

use std::collections::BTreeMap;
use std::sync::atomic::{AtomicU64, Ordering};
use std::sync::{Arc, Mutex};

use bytes::Bytes;
use ctl::{mix, Thin};
use feoxdb::{FeoxError, FeoxStore};

struct Rng(u64);
impl Rng {
    fn next(&mut self) -> u64 {
        self.0 = self.0.wrapping_add(0x9E37_79B9_7F4A_7C15);
        mix(self.0, 0x51)
    }
    fn below(&mut self, n: u64) -> u64 {
        self.next() % n.max(1)
    }
    fn chance(&mut self, a: u64, b: u64) -> bool {
        self.below(b) < a
    }
}

#[derive(Default)]
struct Report {
    fails: Mutex<Vec<(String, String)>>,
    counters: Mutex<BTreeMap<String, u64>>,
}
impl Report {
    fn fail(&self, rule: &str, detail: String) {
        self.fails.lock().unwrap().push((rule.to_string(), detail));
    }
    fn count(&self, name: &str, n: u64) {
        *self.counters.lock().unwrap().entry(name.to_string()).or_insert(0) += n;
    }
}

/// Drops generated operations by index (the minimiser's handle on a scenario).
struct Mask {
    bits: u64,
    next: u32,
}
impl Mask {
    fn keep(&mut self) -> bool {
        let i = self.next;
        self.next += 1;
        i >= 64 || self.bits & (1u64 << i) == 0
    }
}

/// Self-describing value: any byte string a read returns is attributable to one write.
fn value(key: u8, writer: u8, counter: u8, len: usize) -> Vec<u8> {
    let mut v = vec![key, writer, counter, len as u8];
    let mut s = mix(key as u64 * 65_536 + writer as u64 * 256 + counter as u64, len as u64);
    while v.len() < len {
        s = mix(s, 7);
        v.push(s as u8);
    }
    v.truncate(len);
    v
}

fn genuine(v: &[u8], key: u8) -> bool {
    v.len() >= 4 && v[0] == key && v == value(v[0], v[1], v[2], v.len()).as_slice()
}

fn spawn_all<F: FnOnce() + Send + 'static>(bodies: Vec<F>) {
    // a start line: thread creation costs thousands of interpreted blocks, without it the first
    // thread has finished before the last one exists
    let n = bodies.len();
    let ready = Arc::new(AtomicU64::new(0));
    let handles: Vec<_> = bodies
        .into_iter()
        .map(|body| {
            let ready = ready.clone();
            std::thread::spawn(move || {
                ready.fetch_add(1, Ordering::SeqCst);
                while (ready.load(Ordering::SeqCst) as usize) < n {
                    std::thread::yield_now();
                }
                body()
            })
        })
        .collect();
    for h in handles {
        h.join().expect("scenario thread panicked");
    }
}

fn usage_exact(store: &FeoxStore, keys: &[Vec<u8>], rep: &Report, what: &str) {
    let overhead = FeoxStore::verif_record_overhead();
    let mut want = 0usize;
    let mut present = 0usize;
    for k in keys {
        if let Ok(v) = store.get(k) {
            want += overhead + k.len() + v.len();
            present += 1;
        }
    }
    let got = store.memory_usage();
    if got != want {
        rep.fail("memory-accounting", format!("{what}: memory_usage() = {got} at quiescence but the {present} live keys account for {want}"));
    }
    if store.len() != present {
        rep.fail("len-mismatch", format!("{what}: len() = {} at quiescence but {present} keys are readable", store.len()));
    }
    let hash: Vec<(Vec<u8>, u64)> = store.verif_hash_keys().into_iter().map(|k| (k.key, k.timestamp)).collect();
    let tree: Vec<(Vec<u8>, u64)> = store.verif_tree_keys().into_iter().map(|(k, t, _)| (k, t)).collect();
    if hash != tree {
        rep.fail("index-divergence", format!("{what}: hashed index {hash:?} vs ordered index {tree:?}"));
    }
}

// ------------------------------------------------------------------------------------------
// limit (C13): creators, growers and a deleter against a limit that admits only some of them

fn family_limit(seed: u64, mask: u64, rounds: (u64, u64), rep: &Arc<Report>) {
    let mut r0 = Rng(mix(seed, 0x11));
    let overhead = FeoxStore::verif_record_overhead();
    let vlen = 8 + r0.below(40) as usize;
    let rec = overhead + 2 + vlen;
    let room = 2 + r0.below(2) as usize; // records the limit has room for
    let limit = rec * room + r0.below(rec as u64 - 1) as usize;
    let store = Arc::new(FeoxStore::builder().hash_bits(4).max_memory(limit).build().unwrap());
    // the interpreter's start-up dominates a run, the race itself is a few hundred blocks: many
    // rounds per run, the store emptied in between
    for round in rounds.0..rounds.1 {
        let mut r = Rng(mix(seed, 0x1100 + round));
        let mut m = Mask { bits: mask, next: 0 };
        if r.chance(1, 2) {
            // churn round: every thread creates and deletes its own key back to back, no start line
            // in between - as many passes through the admission code per interpreted block as possible
            let threads = room + 2 + r.below(4) as usize;
            let passes = 3 + r.below(4);
            let mut bodies: Vec<Box<dyn FnOnce() + Send>> = Vec::new();
            for c in 0..threads {
                if !m.keep() {
                    continue;
                }
                let (s, rep2) = (store.clone(), rep.clone());
                bodies.push(Box::new(move || {
                    let k = vec![b'h', c as u8];
                    let v = value(b'h', c as u8, 2, vlen);
                    for _ in 0..passes {
                        let res = s.insert(&k, &v);
                        let now = s.memory_usage();
                        if now > limit {
                            rep2.fail("memory-limit-exceeded", format!("round {round} (churn): memory_usage() = {now} right after thread {c} returned {res:?}; limit {limit} (room for {room} records of {rec})"));
                            return;
                        }
                        match res {
                            Ok(_) => {
                                rep2.count("admitted", 1);
                                if let Err(e) = s.delete(&k) {
                                    rep2.fail("unexpected-error", format!("churn delete: {e:?}"));
                                }
                            }
                            Err(FeoxError::OutOfMemory) => rep2.count("refused", 1),
                            Err(e) => rep2.fail("unexpected-error", format!("churn insert: {e:?}")),
                        }
                    }
                }));
            }
            spawn_all(bodies);
            rep.count("rounds", 1);
            rep.count("churn_rounds", 1);
            if store.memory_usage() != 0 || store.len() != 0 {
                rep.fail("memory-accounting", format!("round {round} (churn): every key deleted again but memory_usage() = {} and len() = {}", store.memory_usage(), store.len()));
            }
            if !rep.fails.lock().unwrap().is_empty() {
                return;
            }
            continue;
        }
        let preload = if r.chance(1, 3) { 1 } else { 0 };
        let mut keys: Vec<Vec<u8>> = Vec::new();
        for p in 0..preload {
            let k = vec![b'p', p as u8];
            store.insert(&k, &value(b'p', p as u8, 0, vlen)).unwrap();
            keys.push(k);
        }
        let creators = room - preload + 1 + r.below(3) as usize; // always at least one too many
        let with_deleter = preload > 0 && r.chance(1, 2);
        let peak = Arc::new(AtomicU64::new(0));
        let mut bodies: Vec<Box<dyn FnOnce() + Send>> = Vec::new();
        for c in 0..creators {
            let k = vec![b'c', c as u8];
            keys.push(k.clone());
            let kind = r.below(4);
            if !m.keep() {
                continue;
            }
            let (s, rep2, peak2) = (store.clone(), rep.clone(), peak.clone());
            bodies.push(Box::new(move || {
                let v = value(b'c', c as u8, 1, vlen);
                let res = match kind {
                    0 => s.insert(&k, &v).map(|_| ()),
                    1 => s.insert_if_absent(&k, &v).map(|_| ()),
                    2 => s.insert_bytes(&k, Bytes::from(v.clone())).map(|_| ()),
                    _ => s.insert_with_timestamp(&k, &v, None).map(|_| ()),
                };
                let now = s.memory_usage();
                peak2.fetch_max(now as u64, Ordering::Relaxed);
                if now > limit {
                    rep2.fail("memory-limit-exceeded", format!("round {round}: memory_usage() = {now} right after creator {c} returned {res:?}; limit {limit} (room for {room} records of {rec})"));
                }
                match res {
                    Ok(()) => {
                        rep2.count("admitted", 1);
                        if s.get(&k).ok().as_deref() != Some(&v[..]) {
                            rep2.fail("admitted-write-not-readable", format!("round {round}: creator {c} was admitted but its key does not read back"));
                        }
                    }
                    Err(FeoxError::OutOfMemory) => {
                        rep2.count("refused", 1);
                        if s.contains_key(&k) {
                            rep2.fail("refused-write-visible", format!("round {round}: creator {c} was refused with OutOfMemory but its key exists"));
                        }
                    }
                    Err(e) => rep2.fail("unexpected-error", format!("round {round}: creator {c}: {e:?}")),
                }
            }));
        }
        if with_deleter && m.keep() {
            let (s, rep2) = (store.clone(), rep.clone());
            bodies.push(Box::new(move || {
                if let Err(e) = s.delete(&[b'p', 0]) {
                    rep2.fail("unexpected-error", format!("deleter: {e:?}"));
                }
                rep2.count("deletes", 1);
            }));
        }
        spawn_all(bodies);
        let end = store.memory_usage();
        if end > limit {
            rep.fail("memory-limit-exceeded", format!("round {round}: memory_usage() = {end} at quiescence; limit {limit} (room for {room} records of {rec}), {creators} creators, preload {preload}"));
        }
        rep.count("peak_permille_of_limit_sum", peak.load(Ordering::Relaxed) * 1000 / limit as u64);
        rep.count("rounds", 1);
        usage_exact(&store, &keys, rep, "limit");
        if !rep.fails.lock().unwrap().is_empty() {
            return;
        }
        for k in &keys {
            let _ = store.delete(k);
        }
        if store.memory_usage() != 0 || store.len() != 0 {
            rep.fail("memory-accounting", format!("round {round}: every key deleted but memory_usage() = {} and len() = {}", store.memory_usage(), store.len()));
            return;
        }
    }
}

// ------------------------------------------------------------------------------------------
// rmw (C07): conservation laws of racing read-modify-write calls on one key

fn family_rmw(seed: u64, mask: u64, rep: &Arc<Report>) {
    let mut r = Rng(mix(seed, 0x22));
    let mut m = Mask { bits: mask, next: 0 };
    let store = Arc::new(FeoxStore::builder().hash_bits(2).no_memory_limit().build().unwrap());
    let key = b"k".to_vec();
    let threads = 2 + r.below(2) as usize;
    let variant = r.below(5);
    let mut bodies: Vec<Box<dyn FnOnce() + Send>> = Vec::new();
    match variant {
        // counters: the sum of the successful deltas is the final value
        0 => {
            let preset = r.chance(1, 2);
            if preset {
                store.insert(&key, &100i64.to_le_bytes()).unwrap();
            }
            let sum = Arc::new(AtomicU64::new(if preset { 100 } else { 0 }));
            for t in 0..threads {
                let n = 1 + r.below(2);
                if !m.keep() {
                    continue;
                }
                let (s, rep2, k, sum2) = (store.clone(), rep.clone(), key.clone(), sum.clone());
                bodies.push(Box::new(move || {
                    for i in 0..n {
                        let delta = 1i64 << (t as u64 * 8 + i * 3);
                        match s.atomic_increment(&k, delta) {
                            Ok(_) => {
                                sum2.fetch_add(delta as u64, Ordering::SeqCst);
                                rep2.count("increments", 1);
                            }
                            Err(FeoxError::OlderTimestamp) => rep2.count("increments_refused_older", 1),
                            Err(e) => rep2.fail("unexpected-error", format!("increment: {e:?}")),
                        }
                    }
                }));
            }
            spawn_all(bodies);
            let got = store.get(&key).ok().map(|v| i64::from_le_bytes(v[..8].try_into().unwrap()));
            let want = sum.load(Ordering::SeqCst) as i64;
            if got != Some(want) && !(got.is_none() && want == 0) {
                rep.fail("lost-or-wrong-increment", format!("counter reads {got:?} after successful increments adding up to {want}"));
            }
        }
        // compare-and-swap race: one winner, its value stays
        1 => {
            let base = value(b'k', 0, 0, 12);
            store.insert(&key, &base).unwrap();
            let winners = Arc::new(Mutex::new(Vec::new()));
            for t in 0..threads {
                if !m.keep() {
                    continue;
                }
                let (s, rep2, k, w2, b2) = (store.clone(), rep.clone(), key.clone(), winners.clone(), base.clone());
                bodies.push(Box::new(move || match s.compare_and_swap(&k, &b2, &value(b'k', 1 + t as u8, 1, 16)) {
                    Ok(true) => w2.lock().unwrap().push(t),
                    Ok(false) => rep2.count("cas_lost", 1),
                    Err(FeoxError::OlderTimestamp) => rep2.count("cas_refused_older", 1),
                    Err(e) => rep2.fail("unexpected-error", format!("cas: {e:?}")),
                }));
            }
            let launched = bodies.len();
            spawn_all(bodies);
            let w = winners.lock().unwrap().clone();
            let got = store.get(&key).unwrap();
            if launched > 0 && w.len() != 1 {
                rep.fail("cas-winner-count", format!("{} of {launched} swaps expecting the same unique value succeeded", w.len()));
            } else if launched > 0 && got != value(b'k', 1 + w[0] as u8, 1, 16) {
                rep.fail("cas-swapped-wrong-value", format!("winner {} but the key reads {:?}", w[0], &got[..4]));
            }
        }
        // insert-if-absent race: one winner
        2 => {
            let winners = Arc::new(Mutex::new(Vec::new()));
            for t in 0..threads {
                if !m.keep() {
                    continue;
                }
                let (s, rep2, k, w2) = (store.clone(), rep.clone(), key.clone(), winners.clone());
                bodies.push(Box::new(move || match s.insert_if_absent(&k, &value(b'k', 1 + t as u8, 2, 20)) {
                    Ok(true) => w2.lock().unwrap().push(t),
                    Ok(false) => rep2.count("iia_lost", 1),
                    Err(e) => rep2.fail("unexpected-error", format!("insert_if_absent: {e:?}")),
                }));
            }
            let launched = bodies.len();
            spawn_all(bodies);
            let w = winners.lock().unwrap().clone();
            if launched > 0 {
                if w.len() != 1 {
                    rep.fail("insert-if-absent-winner-count", format!("{} of {launched} racing insert_if_absent calls on an absent key succeeded", w.len()));
                } else if store.get(&key).ok() != Some(value(b'k', 1 + w[0] as u8, 2, 20)) {
                    rep.fail("insert-if-absent-wrong-value", format!("winner {} but another value is stored", w[0]));
                }
            }
        }
        // explicit timestamps: the newest one ends up stored and was accepted
        3 => {
            let base_ts = ctl::EPOCH_NS + 1_000_000_000;
            let accepted = Arc::new(Mutex::new(Vec::new()));
            let mut tss = Vec::new();
            for t in 0..threads {
                let ts = base_ts + r.below(1000) * 10 + t as u64;
                let del = r.chance(1, 5);
                if !m.keep() {
                    continue;
                }
                tss.push((ts, t, del));
                let (s, rep2, k, a2) = (store.clone(), rep.clone(), key.clone(), accepted.clone());
                bodies.push(Box::new(move || {
                    let res = if del {
                        s.delete_with_timestamp(&k, Some(ts))
                    } else {
                        s.insert_with_timestamp(&k, &value(b'k', 1 + t as u8, 3, 24), Some(ts)).map(|_| ())
                    };
                    match res {
                        Ok(()) => a2.lock().unwrap().push(ts),
                        Err(FeoxError::OlderTimestamp) => rep2.count("explicit_refused_older", 1),
                        Err(FeoxError::KeyNotFound) if del => rep2.count("delete_of_absent", 1),
                        Err(e) => rep2.fail("unexpected-error", format!("explicit write: {e:?}")),
                    }
                }));
            }
            // a reader: everything it sees is a value somebody wrote
            {
                let (s, rep2, k) = (store.clone(), rep.clone(), key.clone());
                bodies.push(Box::new(move || {
                    for _ in 0..2 {
                        match s.get(&k) {
                            Ok(v) if genuine(&v, b'k') => rep2.count("reads", 1),
                            Ok(v) => rep2.fail("read-not-genuine", format!("get returned {} bytes {:?} nobody wrote", v.len(), &v[..v.len().min(8)])),
                            Err(FeoxError::KeyNotFound) => rep2.count("reads_absent", 1),
                            Err(e) => rep2.fail("unexpected-error", format!("get: {e:?}")),
                        }
                    }
                }));
            }
            spawn_all(bodies);
            if let Some(&(ts, t, del)) = tss.iter().max() {
                let acc = accepted.lock().unwrap().clone();
                let state = store.verif_key(&key);
                if del {
                    // a delete of an absent key answers KeyNotFound and leaves nothing behind; when it
                    // was accepted the key is gone
                    if acc.contains(&ts) && state.is_some() {
                        rep.fail("write-landed-on-newer-state", format!("the newest call was an accepted delete at {ts} but the key still exists: {:?}", state.map(|s| s.timestamp)));
                    }
                } else if !acc.contains(&ts) {
                    rep.fail("unjustified-older-timestamp", format!("the write with the greatest timestamp {ts} was refused"));
                } else {
                    let got = store.get(&key).ok();
                    if got != Some(value(b'k', 1 + t as u8, 3, 24)) || state.as_ref().map(|s| s.timestamp) != Some(ts) {
                        rep.fail("write-landed-on-newer-state", format!("the write with the greatest timestamp {ts} was accepted but the key holds timestamp {:?}", state.map(|s| s.timestamp)));
                    }
                }
            }
        }
        // automatic versions: every accepted write gets a version of its own, the last one stays
        _ => {
            for t in 0..threads {
                if !m.keep() {
                    continue;
                }
                let (s, rep2, k) = (store.clone(), rep.clone(), key.clone());
                bodies.push(Box::new(move || {
                    for i in 0..2u8 {
                        match s.insert(&k, &value(b'k', 1 + t as u8, 10 + i, 14)) {
                            Ok(_) => rep2.count("auto_writes", 1),
                            Err(FeoxError::OlderTimestamp) => rep2.count("auto_refused_older", 1),
                            Err(e) => rep2.fail("unexpected-error", format!("insert: {e:?}")),
                        }
                    }
                }));
            }
            spawn_all(bodies);
            if let Ok(v) = store.get(&key) {
                if !genuine(&v, b'k') {
                    rep.fail("read-not-genuine", format!("final value {:?} was never written", &v[..v.len().min(8)]));
                }
            }
        }
    }
    rep.count(&format!("rmw_variant_{variant}"), 1);
    usage_exact(&store, &[key], rep, "rmw");
}

// ------------------------------------------------------------------------------------------
// crdel (C07, C14): creation racing deletion of one key - the two indexes of the store are
// updated by both calls, and at quiescence they must hold the same generations

fn family_crdel(seed: u64, mask: u64, rep: &Arc<Report>) {
    let mut m = Mask { bits: mask, next: 0 };
    let mut r = Rng(mix(seed, 0x6600));
    let store = Arc::new(FeoxStore::builder().hash_bits(2).no_memory_limit().build().unwrap());
    // one creator walks over fresh keys; deleters spin on the key that comes next until they have
    // removed it (so a delete lands as soon after the creation as the interleaving allows); an
    // optional second creator / updater works on the same keys
    let n_keys = 3 + r.below(3) as usize;
    let keys: Vec<Vec<u8>> = (0..n_keys).map(|q| vec![b'k', b'0' + q as u8]).collect();
    let done = Arc::new(AtomicU64::new(0));
    let mut bodies: Vec<Box<dyn FnOnce() + Send>> = Vec::new();
    let creators = 1 + r.below(2) as usize;
    for c in 0..creators {
        let hows: Vec<u64> = (0..n_keys).map(|_| r.below(4)).collect();
        if !m.keep() {
            continue;
        }
        let (s, rep2, ks, done2) = (store.clone(), rep.clone(), keys.clone(), done.clone());
        bodies.push(Box::new(move || {
            let res = std::panic::catch_unwind(std::panic::AssertUnwindSafe(|| {
                for (i, k) in ks.iter().enumerate() {
                    let v = value(b'k', 1 + c as u8, i as u8, 12 + c);
                    let res = match hows[i] {
                        0 | 1 => s.insert_if_absent(k, &v).map(|_| ()),
                        2 => s.insert(k, &v).map(|_| ()),
                        _ => s.atomic_increment(k, 1 + i as i64).map(|_| ()),
                    };
                    match res {
                        Ok(()) => rep2.count("creations_or_updates", 1),
                        Err(FeoxError::OlderTimestamp) => rep2.count("refused_older", 1),
                        Err(FeoxError::InvalidOperation) | Err(FeoxError::InvalidNumericValue) => rep2.count("increment_on_non_counter", 1),
                        Err(e) => rep2.fail("unexpected-error", format!("creator {c} key {i}: {e:?}")),
                    }
                }
            }));
            if res.is_err() {
                rep2.fail("panic", format!("creator {c} panicked"));
            }
            done2.fetch_add(1, Ordering::SeqCst);
        }));
    }
    let launched_creators = bodies.len() as u64;
    for d in 0..1 + r.below(3) as usize {
        if !m.keep() {
            continue;
        }
        let (s, rep2, ks, done2) = (store.clone(), rep.clone(), keys.clone(), done.clone());
        bodies.push(Box::new(move || {
            let res = std::panic::catch_unwind(std::panic::AssertUnwindSafe(|| {
                for k in ks.iter() {
                    let mut tries = 0;
                    loop {
                        tries += 1;
                        match s.delete(k) {
                            Ok(()) => {
                                rep2.count("deletes", 1);
                                break;
                            }
                            Err(FeoxError::KeyNotFound) => {}
                            Err(FeoxError::OlderTimestamp) => rep2.count("refused_older", 1),
                            Err(e) => {
                                rep2.fail("unexpected-error", format!("deleter {d}: {e:?}"));
                                break;
                            }
                        }
                        if tries > 300 || done2.load(Ordering::SeqCst) >= launched_creators {
                            break;
                        }
                    }
                }
            }));
            if res.is_err() {
                rep2.fail("panic", format!("deleter {d} panicked"));
            }
        }));
    }
    if r.chance(1, 3) && m.keep() {
        // a reader of both indexes: whatever it sees somebody wrote
        let (s, rep2) = (store.clone(), rep.clone());
        bodies.push(Box::new(move || {
            for _ in 0..3 {
                if let Ok(rows) = s.range_query(b"k", b"l", 10) {
                    for (rk, v) in rows {
                        if !(genuine(&v, b'k') || v.len() == 8) {
                            rep2.fail("read-not-genuine", format!("range returned {} bytes nobody wrote under {rk:?}", v.len()));
                        }
                    }
                }
            }
        }));
    }
    spawn_all(bodies);
    // quiescent: both indexes, both read paths and the accounting tell the same story
    let by_get: Vec<Vec<u8>> = keys.iter().filter(|k| store.get(k).is_ok()).cloned().collect();
    let by_range: Vec<Vec<u8>> = store.range_query(&[], &[0xff; 4], 100).map(|rows| rows.into_iter().map(|(k, _)| k).collect()).unwrap_or_default();
    if by_get != by_range {
        rep.fail("index-divergence", format!("get finds {by_get:?} but a full range query returns {by_range:?}"));
    }
    usage_exact(&store, &keys, rep, "crdel");
}

// ------------------------------------------------------------------------------------------
// range (C14): scans against neighbours being created, replaced and deleted

fn family_range(seed: u64, mask: u64, rep: &Arc<Report>) {
    let mut r = Rng(mix(seed, 0x33));
    let mut m = Mask { bits: mask, next: 0 };
    let store = Arc::new(FeoxStore::builder().hash_bits(3).no_memory_limit().build().unwrap());
    // stable keys b, d, f; mutable keys a, c, e, g
    let stable = [b'b', b'd', b'f'];
    let mutable = [b'a', b'c', b'e', b'g'];
    for &k in &stable {
        store.insert(&[k], &value(k, 0, 0, 10)).unwrap();
    }
    for &k in &mutable {
        if r.chance(1, 2) {
            store.insert(&[k], &value(k, 0, 0, 10)).unwrap();
        }
    }
    let mut bodies: Vec<Box<dyn FnOnce() + Send>> = Vec::new();
    let mutators = 1 + r.below(2) as usize;
    for t in 0..mutators {
        let mut ops = Vec::new();
        for i in 0..(1 + r.below(3)) {
            let k = mutable[r.below(4) as usize];
            let del = r.chance(1, 3);
            if m.keep() {
                ops.push((k, del, i as u8));
            }
        }
        let (s, rep2) = (store.clone(), rep.clone());
        bodies.push(Box::new(move || {
            for (k, del, i) in ops {
                let res = if del { s.delete(&[k]) } else { s.insert(&[k], &value(k, 1 + t as u8, i, 12)).map(|_| ()) };
                match res {
                    Ok(()) => rep2.count("mutations", 1),
                    Err(FeoxError::KeyNotFound) | Err(FeoxError::OlderTimestamp) => rep2.count("mutations_refused", 1),
                    Err(e) => rep2.fail("unexpected-error", format!("mutator: {e:?}")),
                }
            }
        }));
    }
    let scans = 1 + r.below(2);
    for _ in 0..scans {
        let lo = [b'a', b'b', b'c'][r.below(3) as usize];
        let hi = [b'e', b'f', b'g', b'h'][r.below(4) as usize];
        let limit = [1usize, 2, 3, 100][r.below(4) as usize];
        if !m.keep() {
            continue;
        }
        let (s, rep2) = (store.clone(), rep.clone());
        bodies.push(Box::new(move || {
            for _ in 0..2 {
                let got = match s.range_query(&[lo], &[hi], limit) {
                    Ok(g) => g,
                    Err(e) => {
                        rep2.fail("range-error", format!("{e:?}"));
                        return;
                    }
                };
                rep2.count("scans", 1);
                if got.len() > limit {
                    rep2.fail("range-over-limit", format!("{} entries for limit {limit}", got.len()));
                }
                for w in got.windows(2) {
                    if w[0].0 >= w[1].0 {
                        rep2.fail("range-not-ascending", format!("{:?} before {:?}", w[0].0, w[1].0));
                    }
                }
                for (k, v) in &got {
                    if k.len() != 1 || k[0] < lo || k[0] > hi {
                        rep2.fail("range-out-of-bounds", format!("key {k:?} for [{lo}, {hi}]"));
                    } else if !genuine(v, k[0]) {
                        rep2.fail("read-not-genuine", format!("scan returned {:?} for key {:?}", &v[..v.len().min(8)], k));
                    }
                }
                let window_end = if got.len() == limit { got.last().map(|(k, _)| k[0]).unwrap_or(0) } else { hi };
                for &k in &stable {
                    if k >= lo && k <= hi && k <= window_end && limit > 0 {
                        let n = got.iter().filter(|(gk, _)| gk[0] == k).count();
                        if n != 1 {
                            rep2.fail("range-missed-stable-key", format!("key {:?}, present and untouched throughout, appears {n} times in [{lo}, {hi}] limit {limit}: {:?}", k as char, got.iter().map(|(k, _)| k[0] as char).collect::<String>()));
                        }
                    }
                }
            }
        }));
    }
    spawn_all(bodies);
    let keys: Vec<Vec<u8>> = stable.iter().chain(mutable.iter()).map(|&k| vec![k]).collect();
    usage_exact(&store, &keys, rep, "range");
}

// ------------------------------------------------------------------------------------------
// cache (C16c): the CLOCK cache alone, accounting and genuineness under racing callers

fn family_cache(seed: u64, mask: u64, rep: &Arc<Report>) {
    use feoxdb::core::cache::ClockCache;
    use feoxdb::stats::Statistics;
    let mut r = Rng(mix(seed, 0x44));
    let mut m = Mask { bits: mask, next: 0 };
    let stats = Arc::new(Statistics::new());
    let cache = Arc::new(ClockCache::new(stats.clone()));
    let overhead = ClockCache::verif_entry_overhead();
    let threads = 2 + r.below(2) as usize;
    let mut bodies: Vec<Box<dyn FnOnce() + Send>> = Vec::new();
    for t in 0..threads {
        let mut ops = Vec::new();
        for i in 0..(2 + r.below(3)) {
            let k = b'a' + r.below(2) as u8;
            let kind = r.below(8);
            let len = 8 + r.below(40) as usize;
            if m.keep() {
                ops.push((k, kind, len, i as u8));
            }
        }
        let (c, rep2) = (cache.clone(), rep.clone());
        bodies.push(Box::new(move || {
            for (k, kind, len, i) in ops {
                match kind {
                    0..=3 => {
                        c.insert(vec![k], Bytes::from(value(k, t as u8, i, len)));
                        rep2.count("cache_inserts", 1);
                    }
                    4 | 5 => match c.get(&[k]) {
                        Some(v) if genuine(&v, k) => rep2.count("cache_hits", 1),
                        Some(v) => rep2.fail("cache-returned-foreign-bytes", format!("get({:?}) returned {:?}", k as char, &v[..v.len().min(8)])),
                        None => rep2.count("cache_misses", 1),
                    },
                    6 => {
                        c.remove(&[k]);
                        rep2.count("cache_removes", 1);
                    }
                    _ => {
                        c.evict_entries();
                        rep2.count("cache_evict_calls", 1);
                    }
                }
            }
        }));
    }
    spawn_all(bodies);
    let entries = cache.verif_entries();
    let mut sum = 0usize;
    let mut seen = std::collections::BTreeSet::new();
    for (key, size, value_len, _, _) in &entries {
        if *size != key.len() + value_len + overhead {
            rep.fail("cache-entry-size", format!("entry {key:?} accounts {size} bytes but holds {} + {value_len} + {overhead}", key.len()));
        }
        if !seen.insert(key.clone()) {
            rep.fail("cache-duplicate-entry", format!("key {key:?} is cached twice"));
        }
        sum += size;
    }
    let reported = stats.cache_memory.load(Ordering::Relaxed);
    if reported != sum {
        rep.fail("cache-accounting", format!("cache reports {reported} bytes at quiescence but its {} entries total {sum}", entries.len()));
    }
    cache.clear();
    if stats.cache_memory.load(Ordering::Relaxed) != 0 || !cache.verif_entries().is_empty() {
        rep.fail("cache-clear-incomplete", format!("after clear(): {} bytes reported", stats.cache_memory.load(Ordering::Relaxed)));
    }
}

// ------------------------------------------------------------------------------------------
// ttl (C11, C13): background sweeper against readers, a renewing writer and the accounting

fn family_ttl(seed: u64, mask: u64, rep: &Arc<Report>, thin: &Arc<Thin>) {
    let mut r = Rng(mix(seed, 0x55));
    let mut m = Mask { bits: mask, next: 0 };
    let store = Arc::new(FeoxStore::builder().hash_bits(3).no_memory_limit().enable_ttl(true).build().unwrap());
    // short: expires before the threads start; long: never within the run; plain: no expiry
    let short = [b's', b't'];
    let long = [b'l'];
    let plain = [b'p'];
    for &k in &short {
        store.insert_with_ttl(&[k], &value(k, 0, 0, 10), 1).unwrap();
    }
    for &k in &long {
        store.insert_with_ttl(&[k], &value(k, 0, 0, 10), 100_000).unwrap();
    }
    for &k in &plain {
        store.insert(&[k], &value(k, 0, 0, 10)).unwrap();
    }
    thin.advance(2_500_000_000);
    store.start_ttl_sweeper(Some(feoxdb::core::ttl_sweep::TtlConfig {
        sample_size: 4,
        expiry_threshold: 0.25,
        max_iterations: 4,
        max_time_per_run: std::time::Duration::from_millis(1),
        sleep_interval: std::time::Duration::from_millis(1),
        enabled: true,
    }));
    let mut bodies: Vec<Box<dyn FnOnce() + Send>> = Vec::new();
    // readers of the keys that must stay
    if m.keep() {
        let (s, rep2) = (store.clone(), rep.clone());
        bodies.push(Box::new(move || {
            for _ in 0..2 {
                for &k in long.iter().chain(plain.iter()) {
                    match s.get(&[k]) {
                        Ok(v) if v == value(k, 0, 0, 10) => rep2.count("ttl_reads", 1),
                        other => rep2.fail("unexpired-key-not-found", format!("get({:?}) = {:?} while its generation has no expiry in reach", k as char, other.map(|v| v.len()))),
                    }
                }
            }
        }));
    }
    // readers of the expired keys
    if m.keep() {
        let (s, rep2) = (store.clone(), rep.clone());
        let k = short[0];
        bodies.push(Box::new(move || match s.get(&[k]) {
            Err(FeoxError::KeyNotFound) => rep2.count("expired_reads", 1),
            other => rep2.fail("expired-visible", format!("get({:?}) = {:?} 1.5 s after its expiry", k as char, other.map(|v| v.len()))),
        }));
    }
    // a writer that replaces an expired key by a lasting one, races with the sweeper's removal
    let renew_kind = r.below(3);
    let renewed = m.keep();
    if renewed {
        let (s, rep2) = (store.clone(), rep.clone());
        let k = short[1];
        bodies.push(Box::new(move || {
            let v = value(k, 1, 1, 14);
            let res = match renew_kind {
                0 => s.insert(&[k], &v).map(|_| ()),
                1 => s.insert_with_ttl(&[k], &v, 100_000).map(|_| ()),
                _ => s.insert_if_absent(&[k], &v).and_then(|created| if created { Ok(()) } else { Err(FeoxError::DuplicateKey) }),
            };
            match res {
                Ok(()) => match s.get(&[k]) {
                    Ok(got) if got == v => rep2.count("renewals", 1),
                    other => rep2.fail("unexpired-key-not-found", format!("key {:?} was rewritten (kind {renew_kind}) with a lasting generation and reads {:?}", k as char, other.map(|v| v.len()))),
                },
                Err(FeoxError::OlderTimestamp) => rep2.count("renewal_refused_older", 1),
                Err(FeoxError::DuplicateKey) => rep2.count("renewal_saw_key", 1),
                Err(e) => rep2.fail("unexpected-error", format!("renewal: {e:?}")),
            }
        }));
    }
    spawn_all(bodies);
    // the sweeper cannot be stopped without dropping the store: the accounting has to agree with
    // the index at one of many looks (between two sweeps nothing moves; a forgotten release never agrees)
    let overhead = FeoxStore::verif_record_overhead();
    let mut last = (0usize, 0usize, true);
    let mut agreed = false;
    let mut final_keys: Vec<Vec<u8>> = Vec::new();
    for _ in 0..400 {
        let before: Vec<(Vec<u8>, u64, usize)> = store.verif_hash_keys().into_iter().map(|k| (k.key, k.timestamp, k.value_len)).collect();
        let usage = store.memory_usage();
        let tree: Vec<(Vec<u8>, u64)> = store.verif_tree_keys().into_iter().map(|(k, t, _)| (k, t)).collect();
        let after: Vec<(Vec<u8>, u64, usize)> = store.verif_hash_keys().into_iter().map(|k| (k.key, k.timestamp, k.value_len)).collect();
        let live: usize = before.iter().map(|(k, _, l)| overhead + k.len() + l).sum();
        let same_index = tree == before.iter().map(|(k, t, _)| (k.clone(), *t)).collect::<Vec<_>>();
        last = (usage, live, same_index);
        if before == after {
            final_keys = before.iter().map(|(k, _, _)| k.clone()).collect();
            if usage == live && same_index {
                agreed = true;
                break;
            }
        }
        std::thread::yield_now();
    }
    if !agreed && last.0 != last.1 {
        rep.fail("memory-accounting", format!("memory_usage() = {} but the indexed generations account for {} (400 looks with the sweeper idle in between)", last.0, last.1));
    } else if !agreed {
        rep.fail("index-divergence", "hashed and ordered index never agreed in 400 looks with the sweeper idle in between".to_string());
    }
    for &k in long.iter().chain(plain.iter()) {
        if store.get(&[k]).ok() != Some(value(k, 0, 0, 10)) {
            rep.fail("unexpired-key-not-found", format!("key {:?} is gone at the end of the run", k as char));
        }
    }
    let hash = final_keys;
    rep.count("swept_at_end", (short.len() - hash.iter().filter(|k| short.contains(&k[0])).count()) as u64);
}

fn main() {
    let args: Vec<String> = std::env::args().collect();
    let family = args.get(1).cloned().unwrap_or_else(|| "limit".into());
    let seed: u64 = args.get(2).and_then(|s| s.parse().ok()).unwrap_or(1);
    let mask: u64 = args.get(3).and_then(|s| s.parse().ok()).unwrap_or(0);
    // rounds [from, to): a run is several independent rounds (the interpreter's start-up is the cost)
    let rounds: (u64, u64) = (
        args.get(4).and_then(|s| s.parse().ok()).unwrap_or(0),
        args.get(5).and_then(|s| s.parse().ok()).unwrap_or(6),
    );
    let thin = Thin::new(seed);
    if family == "crdel" {
        ctl::ENTRY_RELEASE_SEAM.store(true, Ordering::Relaxed);
    }
    feoxdb::verif::install(thin.clone());
    let rep = Arc::new(Report::default());
    match family.as_str() {
        "limit" => family_limit(seed, mask, rounds, &rep),
        "rmw" => family_rmw(seed, mask, &rep),
        "range" => family_range(seed, mask, &rep),
        "crdel" => family_crdel(seed, mask, &rep),
        "cache" => family_cache(seed, mask, &rep),
        "ttl" => family_ttl(seed, mask, &rep, &thin),
        other => {
            eprintln!("unknown family {other}");
            std::process::exit(2);
        }
    }
    // the controller stays installed: a sweeper that holds the last reference may still be running
    let fails = rep.fails.lock().unwrap().clone();
    let counters = rep.counters.lock().unwrap().clone();
    let esc = |s: &str| s.replace('\\', "\\\\").replace('"', "\\\"").replace('\n', " ");
    let counters_json: Vec<String> = counters.iter().map(|(k, v)| format!("\"{}\":{}", esc(k), v)).collect();
    let (rule, detail) = fails.first().cloned().unwrap_or_default();
    println!(
        "FINE {{\"family\":\"{}\",\"seed\":{},\"mask\":{},\"ok\":{},\"rule\":\"{}\",\"detail\":\"{}\",\"yields\":{},\"clock_reads\":{},\"trace\":{},\"counters\":{{{}}}}}",
        esc(&family),
        seed,
        mask,
        fails.is_empty(),
        esc(&rule),
        esc(&detail),
        thin.yields.load(Ordering::Relaxed),
        thin.clock_reads.load(Ordering::Relaxed),
        thin.trace.load(Ordering::Relaxed),
        counters_json.join(",")
    );
    std::process::exit(if fails.is_empty() { 0 } else { 1 });
}
