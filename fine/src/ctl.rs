//! Thin controller for the fine-grained tier. Under Miri the *interpreter* is the simulator:
//! its seeded scheduler preempts threads at basic-block granularity, so this controller owns no
//! scheduling policy at all. It only supplies what has to be deterministic (clock, hash seeds,
//! cpu count, sampling seeds) and turns every seam of the repository into an extra yield.

use std::fs::File;
use std::sync::atomic::{AtomicBool, AtomicU64, Ordering};
use std::sync::Arc;
use std::time::Duration;

use feoxdb::verif::{Controller, SimDevice};

pub const EPOCH_NS: u64 = 1_750_000_000_000_000_000;
const MAX_THREADS: usize = 64;

pub struct Thin {
    seed: u64,
    /// virtual wall clock in nanoseconds; every reading advances it a little, sleeps advance it
    /// by their duration
    clock: AtomicU64,
    next_thread: AtomicU64,
    finished: [AtomicBool; MAX_THREADS],
    pub yields: AtomicU64,
    pub clock_reads: AtomicU64,
    pub blocks: AtomicU64,
    /// order-sensitive hash of (thread, seam) over every seam passed: the fingerprint of the schedule
    pub trace: AtomicU64,
    next_tid: AtomicU64,
}

thread_local! {
    static TID: std::cell::Cell<u64> = const { std::cell::Cell::new(0) };
}

impl Thin {
    pub fn new(seed: u64) -> Arc<Self> {
        Arc::new(Thin {
            seed,
            clock: AtomicU64::new(EPOCH_NS),
            next_thread: AtomicU64::new(1),
            finished: [const { AtomicBool::new(false) }; MAX_THREADS],
            yields: AtomicU64::new(0),
            clock_reads: AtomicU64::new(0),
            blocks: AtomicU64::new(0),
            trace: AtomicU64::new(0),
            next_tid: AtomicU64::new(1),
        })
    }

    pub fn advance(&self, ns: u64) {
        self.clock.fetch_add(ns, Ordering::SeqCst);
    }

    fn note(&self, site: &str) {
        let tid = TID.with(|t| {
            if t.get() == 0 {
                t.set(self.next_tid.fetch_add(1, Ordering::SeqCst));
            }
            t.get()
        });
        let h = site_hash(site) ^ tid.wrapping_mul(0x9E37_79B9_7F4A_7C15);
        let _ = self.trace.fetch_update(Ordering::SeqCst, Ordering::SeqCst, |old| Some(mix(old, h)));
    }

    pub fn peek(&self) -> u64 {
        self.clock.load(Ordering::SeqCst)
    }
}

/// Switches the cooperative point `index.after_entry_release` (hook H14) on for this process.
pub static ENTRY_RELEASE_SEAM: std::sync::atomic::AtomicBool = std::sync::atomic::AtomicBool::new(false);

pub fn mix(a: u64, b: u64) -> u64 {
    let mut z = a ^ b.wrapping_mul(0x9E37_79B9_7F4A_7C15);
    z = z.wrapping_add(0x9E37_79B9_7F4A_7C15);
    z = (z ^ (z >> 30)).wrapping_mul(0xBF58_476D_1CE4_E5B9);
    z = (z ^ (z >> 27)).wrapping_mul(0x94D0_49BB_1331_11EB);
    z ^ (z >> 31)
}

fn site_hash(site: &str) -> u64 {
    site.bytes().fold(0xcbf2_9ce4_8422_2325u64, |h, b| (h ^ b as u64).wrapping_mul(0x100_0000_01b3))
}

impl Controller for Thin {
    fn now_nanos(&self) -> u64 {
        self.clock_reads.fetch_add(1, Ordering::Relaxed);
        self.note("clock");
        // 1 microsecond per reading: two readings never tie, as with a real clock of that resolution
        self.clock.fetch_add(1_000, Ordering::SeqCst) + 1_000
    }

    fn yield_point(&self, site: &'static str) {
        self.yields.fetch_add(1, Ordering::Relaxed);
        self.note(site);
        std::thread::yield_now();
    }

    fn block_on(&self, _site: &'static str, ready: &dyn Fn() -> bool, timeout: Option<Duration>) -> bool {
        self.blocks.fetch_add(1, Ordering::Relaxed);
        let deadline = timeout.map(|d| self.peek().saturating_add(d.as_nanos() as u64));
        let mut spins = 0u64;
        loop {
            if ready() {
                return true;
            }
            if let Some(d) = deadline {
                // a waiter with a deadline lets virtual time pass: 1/64 of its timeout per turn
                let step = (timeout.unwrap().as_nanos() as u64 / 64).max(1_000);
                self.advance(step);
                if self.peek() >= d {
                    return ready();
                }
            }
            spins += 1;
            if spins > 2_000_000 {
                panic!("fine tier: a thread waited 2 000 000 turns for a lock or a join");
            }
            std::thread::yield_now();
        }
    }

    fn thread_register(&self, _name: &'static str) -> u64 {
        let id = self.next_thread.fetch_add(1, Ordering::SeqCst);
        assert!((id as usize) < MAX_THREADS, "too many threads for the fine tier");
        id
    }

    fn thread_begin(&self, _id: u64) {}

    fn thread_end(&self, id: u64, _panicked: bool) {
        self.finished[id as usize].store(true, Ordering::SeqCst);
    }

    fn thread_finished(&self, id: u64) -> bool {
        self.finished[id as usize].load(Ordering::SeqCst)
    }

    fn hash_seeds(&self, site: &'static str) -> [u64; 4] {
        let s = mix(self.seed, site_hash(site));
        [mix(s, 1), mix(s, 2), mix(s, 3), mix(s, 4)]
    }

    fn cpus(&self, _site: &'static str, _real: usize) -> usize {
        2
    }

    fn jitter(&self, _site: &'static str, _value: i64) -> i64 {
        0
    }

    fn rng_seed(&self, site: &'static str) -> u64 {
        mix(self.seed, site_hash(site) ^ 0x5eed)
    }

    fn device_for(&self, _file: &File) -> Option<Arc<dyn SimDevice>> {
        None
    }

    fn fail_at(&self, site: &'static str) -> bool {
        // hook H14: the seam behind every hash-index entry release, for the families that ask for it
        site == "index.after_entry_release" && ENTRY_RELEASE_SEAM.load(Ordering::Relaxed)
    }

    fn event(&self, _kind: &'static str, _a: u64, _b: u64, _c: u64) {}
}
