//! Environment around one simulated store: device files, open/close/reopen, resolution of
//! symbolic operations into concrete API calls, normalised results.

use std::collections::BTreeMap;
use std::fs::{File, OpenOptions};
use std::path::PathBuf;
use std::sync::Arc;

use bytes::Bytes;
use feoxdb::{FeoxError, FeoxStore};

use crate::codec;
use crate::disk::SimDisk;
use crate::model::{Call, ErrKind, Gen, Model, Obs, Res};
use crate::scenario::{Bound, Expect, Op, Patch, StoreCfg, Ts, Val, ValKind};
use crate::sched::Sim;
use crate::tape::mix;

pub fn err_kind(e: &FeoxError) -> ErrKind {
    match e {
        FeoxError::InvalidKeySize => ErrKind::InvalidKeySize,
        FeoxError::InvalidValueSize => ErrKind::InvalidValueSize,
        FeoxError::KeyNotFound => ErrKind::KeyNotFound,
        FeoxError::OutOfMemory => ErrKind::OutOfMemory,
        FeoxError::OlderTimestamp => ErrKind::OlderTimestamp,
        FeoxError::InvalidOperation => ErrKind::InvalidOperation,
        FeoxError::InvalidNumericValue => ErrKind::InvalidNumericValue,
        FeoxError::JsonPatchError(_) => ErrKind::JsonPatch,
        FeoxError::TtlNotEnabled => ErrKind::TtlNotEnabled,
        FeoxError::Unsupported => ErrKind::Unsupported,
        FeoxError::StaleExtent => ErrKind::StaleExtent,
        FeoxError::IoError(_) => ErrKind::Io,
        FeoxError::IndeterminateWrite(_) => ErrKind::Indeterminate,
        FeoxError::ShuttingDown => ErrKind::ShuttingDown,
        FeoxError::OutOfSpace => ErrKind::OutOfSpace,
        FeoxError::ChannelError | FeoxError::ChannelClosed => ErrKind::Channel,
        other => ErrKind::Other(format!("{other:?}")),
    }
}

/// Per-process scratch directory on tmpfs.
pub fn scratch_dir() -> PathBuf {
    let base = if std::path::Path::new("/dev/shm").is_dir() {
        PathBuf::from("/dev/shm")
    } else {
        std::env::temp_dir()
    };
    let dir = base.join(format!("simcheck-{}", std::process::id()));
    let _ = std::fs::create_dir_all(&dir);
    dir
}

pub fn remove_scratch_dir() {
    let _ = std::fs::remove_dir_all(scratch_dir());
}

// ------------------------------------------------------------------------------------
// self-describing values

pub const VALUE_MAGIC: u8 = 0xF0;

/// `[MAGIC, key id, writer, counter(4), len(4)] ++ keyed stream`, truncated to `len`.
pub fn plain_value(key_id: usize, writer: u8, counter: u32, len: usize) -> Vec<u8> {
    let mut v = Vec::with_capacity(len);
    v.push(VALUE_MAGIC);
    v.push(key_id as u8);
    v.push(writer);
    v.extend_from_slice(&counter.to_le_bytes());
    v.extend_from_slice(&(len as u32).to_le_bytes());
    let mut state = mix(mix(key_id as u64, writer as u64), counter as u64);
    while v.len() < len {
        let w = crate::tape::splitmix64(&mut state).to_le_bytes();
        v.extend_from_slice(&w);
    }
    v.truncate(len);
    v
}

/// Is `bytes` exactly what `plain_value` produces for its own header?
pub fn value_is_self_consistent(bytes: &[u8]) -> Option<(usize, u8, u32)> {
    if bytes.len() < 11 || bytes[0] != VALUE_MAGIC {
        return None;
    }
    let key_id = bytes[1] as usize;
    let writer = bytes[2];
    let counter = u32::from_le_bytes(bytes[3..7].try_into().unwrap());
    let len = u32::from_le_bytes(bytes[7..11].try_into().unwrap()) as usize;
    if len != bytes.len() {
        return None;
    }
    (plain_value(key_id, writer, counter, len) == bytes).then_some((key_id, writer, counter))
}

pub fn json_value(key_id: usize, counter: u32, len: usize) -> Vec<u8> {
    let pad = "x".repeat(len.saturating_sub(30).min(60_000));
    serde_json::to_vec(&serde_json::json!({"k": key_id, "n": counter, "pad": pad})).unwrap()
}

pub fn patch_doc(p: &Patch, counter: u32) -> Vec<u8> {
    match p {
        Patch::ReplaceN => format!(r#"[{{"op":"replace","path":"/n","value":{counter}}}]"#).into_bytes(),
        Patch::AddField => format!(r#"[{{"op":"add","path":"/extra","value":"e{counter}"}}]"#).into_bytes(),
        Patch::RemovePad => br#"[{"op":"remove","path":"/pad"}]"#.to_vec(),
        Patch::TestWrong => br#"[{"op":"test","path":"/k","value":-1},{"op":"replace","path":"/n","value":0}]"#.to_vec(),
        Patch::Garbage => b"[{not json".to_vec(),
        Patch::NoOp => br#"[{"op":"add","path":"/zz_tmp","value":1},{"op":"remove","path":"/zz_tmp"}]"#.to_vec(),
    }
}

/// Keys that are never written by any workload; forged record images carry them.
pub fn ghost_key(i: u64) -> Vec<u8> {
    format!("ghost:{i}").into_bytes()
}

/// Multi-block value whose continuation blocks look like valid heads for the sectors they
/// are expected to land on (`head_sector` = predicted first block of the extent).
pub fn forged_value(version: u32, key_len: usize, head_sector: u64, blocks: usize, salt: u64) -> Vec<u8> {
    let hlen = codec::header_len(version, key_len);
    let total = blocks * codec::BLOCK - hlen;
    let mut v = vec![0u8; total];
    // the first block's remainder: plain filler
    for (i, b) in v.iter_mut().enumerate().take(codec::BLOCK - hlen) {
        *b = (i as u8).wrapping_mul(31).wrapping_add(salt as u8);
    }
    for j in 1..blocks {
        let sector = head_sector + j as u64;
        let at = j * codec::BLOCK - hlen;
        let block: Vec<u8> = match (j + salt as usize) % 3 {
            0 => codec::encode_record(
                version,
                sector,
                &ghost_key(salt.wrapping_add(j as u64)),
                b"forged-ghost-value",
                u64::MAX - 7,
                0,
            ),
            1 => codec::encode_retirement_block(sector, 1 + (salt % 3), true),
            _ => {
                if version < 3 {
                    codec::encode_legacy_marker()
                } else {
                    codec::encode_retirement_block(sector, 1_000_000, true)
                }
            }
        };
        v[at..at + codec::BLOCK].copy_from_slice(&block[..codec::BLOCK]);
    }
    v
}

// ------------------------------------------------------------------------------------
// environment

pub struct Env {
    pub sim: Arc<Sim>,
    pub dir: PathBuf,
    pub cfg: StoreCfg,
    pub keys: Vec<Vec<u8>>,
    pub store: Option<Arc<FeoxStore>>,
    pub disk: Option<Arc<SimDisk>>,
    pub path: String,
    pub file_gen: u32,
    pub tag: String,
}

impl Env {
    pub fn new(sim: Arc<Sim>, cfg: StoreCfg, keys: Vec<Vec<u8>>, tag: &str) -> Env {
        Env {
            sim,
            dir: scratch_dir(),
            cfg,
            keys,
            store: None,
            disk: None,
            path: String::new(),
            file_gen: 0,
            tag: tag.to_string(),
        }
    }

    pub fn device_size(&self) -> usize {
        (16 + self.cfg.data_blocks as usize) * codec::BLOCK
    }

    fn next_path(&mut self) -> String {
        self.file_gen += 1;
        self.dir
            .join(format!("{}-{}.feox", self.tag, self.file_gen))
            .to_string_lossy()
            .into_owned()
    }

    /// Put `image` on a brand-new file and make it the current device.
    pub fn install_image(&mut self, image: Vec<u8>) {
        if !self.path.is_empty() {
            let _ = std::fs::remove_file(&self.path);
        }
        if self.store.is_none() {
            if let Some(old) = self.disk.take() {
                old.discard_contents();
            }
        }
        let path = self.next_path();
        let file = OpenOptions::new()
            .read(true)
            .write(true)
            .create(true)
            .truncate(true)
            .open(&path)
            .expect("create device file");
        use std::os::unix::fs::FileExt;
        file.write_all_at(&image, 0).expect("write image");
        let disk = SimDisk::from_image(&self.sim, file.try_clone().unwrap(), image, &self.tag);
        self.sim.register_device(&file, Arc::clone(&disk));
        self.disk = Some(disk);
        self.path = path;
    }

    /// Create the initial device according to the configuration.
    pub fn create_device(&mut self) {
        let size = self.device_size();
        let now_secs = self.sim.now_wall() / 1_000_000_000;
        if self.cfg.format == 3 {
            if self.cfg.create_empty_file {
                // zero-length file; the store sizes it, the simulated disk adopts it lazily
                let path = self.next_path();
                let file = File::create(&path).expect("create device file");
                let disk = SimDisk::from_image(
                    &self.sim,
                    OpenOptions::new().read(true).write(true).open(&path).unwrap(),
                    Vec::new(),
                    &self.tag,
                );
                self.sim.register_device(&file, Arc::clone(&disk));
                self.disk = Some(disk);
                self.path = path;
            } else {
                self.install_image(vec![0u8; size]);
            }
        } else {
            self.install_image(codec::empty_image(self.cfg.format, size, now_secs));
        }
    }

    pub fn open(&mut self) -> Result<(), FeoxError> {
        assert!(self.store.is_none());
        let mut b = FeoxStore::builder()
            .hash_bits(self.cfg.hash_bits)
            .enable_caching(self.cfg.cache && self.cfg.persistent)
            .enable_ttl(self.cfg.ttl)
            .allow_ambiguous_legacy_recovery(self.cfg.allow_ambiguous);
        b = match self.cfg.max_memory {
            Some(limit) => b.max_memory(limit),
            None => b.no_memory_limit(),
        };
        if self.cfg.persistent {
            if let Some(disk) = &self.disk {
                disk.materialize();
                disk.set_ring_mode(self.cfg.ring);
            }
            b = b
                .device_path(self.path.clone())
                .file_size(self.device_size() as u64);
        }
        let store = Arc::new(b.build()?);
        if let (true, Some(sw)) = (self.cfg.ttl, &self.cfg.sweeper) {
            store.start_ttl_sweeper(Some(feoxdb::core::ttl_sweep::TtlConfig {
                sample_size: sw.sample_size,
                expiry_threshold: 0.25,
                max_iterations: 16,
                max_time_per_run: std::time::Duration::from_millis(1),
                sleep_interval: std::time::Duration::from_millis(sw.interval_ms),
                enabled: true,
            }));
        }
        // always-on device-side monitor: a successful write to the data area never lands on the
        // extent of a key's current generation once that generation's sector is published (a record
        // is written before its sector is published; markers go to retired extents; in-place
        // rewrites do not exist) - double booking shows at the write, not only after a crash
        if let (true, Some(disk)) = (self.cfg.persistent, &self.disk) {
            let weak = Arc::downgrade(&store);
            disk.set_write_guard(Some(Box::new(move |first, last| {
                let store = weak.upgrade()?;
                if store.len() > 256 {
                    return None;
                }
                let version = store.verif_format_version();
                for k in store.verif_hash_keys() {
                    if k.sector == 0 {
                        continue;
                    }
                    let blocks = crate::codec::extent_blocks(version, k.key.len(), k.value_len);
                    if k.sector < last && first < k.sector + blocks {
                        return Some(format!(
                            "device write to blocks {first}..{last} overlaps extent {}+{blocks} of the current generation of key {:?} (ts {}, {} bytes, extent state {:#x})",
                            k.sector,
                            String::from_utf8_lossy(&k.key[..k.key.len().min(24)]),
                            k.timestamp,
                            k.value_len,
                            k.extent_state
                        ));
                    }
                }
                None
            })));
        }
        self.store = Some(store);
        Ok(())
    }

    /// Drop the handle on the calling (simulated) thread.
    pub fn close(&mut self) {
        if let Some(store) = self.store.take() {
            drop(store);
        }
        // writes the kernel still owned when their ring was closed are read now, after the store is gone
        if let Some(disk) = &self.disk {
            disk.ring_finish();
        }
    }

    pub fn st(&self) -> &Arc<FeoxStore> {
        self.store.as_ref().expect("store open")
    }

    /// Let background threads work until nothing is buffered or queued (bounded).
    pub fn settle(&self) -> bool {
        let store = self.st();
        for _ in 0..40 {
            let idle = store.verif_shard_counts().iter().all(|c| *c == 0)
                && store.verif_retirements_pending() == Some(0);
            if idle {
                return true;
            }
            self.sim.sleep(std::time::Duration::from_millis(60));
        }
        false
    }

    pub fn obs(&self, key: &[u8]) -> Option<Obs> {
        self.st().verif_key(key).map(|k| Obs {
            ts: k.timestamp,
            expiry: k.expiry,
            value_len: k.value_len,
        })
    }

    pub fn all_obs(&self) -> BTreeMap<Vec<u8>, Obs> {
        self.st()
            .verif_hash_keys()
            .into_iter()
            .map(|k| {
                (
                    k.key,
                    Obs {
                        ts: k.timestamp,
                        expiry: k.expiry,
                        value_len: k.value_len,
                    },
                )
            })
            .collect()
    }

    pub fn cleanup(&mut self) {
        self.close();
        if !self.path.is_empty() {
            let _ = std::fs::remove_file(&self.path);
        }
    }
}

// ------------------------------------------------------------------------------------
// resolving and executing operations

pub struct Resolver<'a> {
    pub keys: &'a [Vec<u8>],
    pub writer: u8,
    pub counter: u32,
    pub format: u32,
}

pub fn resolve_ts(ts: &Ts, cur: Option<u64>, now: u64) -> Option<u64> {
    match ts {
        Ts::Auto => None,
        Ts::Zero => Some(0),
        Ts::Abs(t) => Some((*t).max(1)),
        Ts::RelCur(d) => {
            let base = cur.unwrap_or(now) as i128 + *d as i128;
            Some(base.clamp(1, u64::MAX as i128) as u64)
        }
        Ts::RelNow(d) => Some((now as i128 + *d as i128).clamp(1, u64::MAX as i128) as u64),
        Ts::MaxMinus(k) => Some(u64::MAX - k),
    }
}

/// `Some(0)` means automatic to the store.
pub fn explicit(ts: Option<u64>) -> Option<u64> {
    ts.filter(|t| *t != 0)
}

impl Resolver<'_> {
    pub fn value(&mut self, key: usize, val: &Val, store: Option<&FeoxStore>) -> Vec<u8> {
        self.counter += 1;
        match &val.kind {
            ValKind::Plain => plain_value(key, self.writer, self.counter, val.len.max(1)),
            ValKind::Counter(v) => v.to_le_bytes().to_vec(),
            ValKind::Json => json_value(key, self.counter, val.len),
            ValKind::Forged => {
                let blocks = (val.len / codec::BLOCK).clamp(2, 6);
                let key_len = self.keys[key].len();
                let head = store
                    .map(|s| predict_sector(s, blocks as u64))
                    .unwrap_or(codec::DATA_START);
                forged_value(self.format, key_len, head, blocks, self.counter as u64)
            }
        }
    }

    pub fn bound(&self, b: &Bound) -> Vec<u8> {
        match b {
            Bound::Empty => Vec::new(),
            Bound::Key(i) => self.keys[*i % self.keys.len()].clone(),
            Bound::After(i) => {
                let mut k = self.keys[*i % self.keys.len()].clone();
                k.push(0);
                k
            }
            Bound::Before(i) => {
                let mut k = self.keys[*i % self.keys.len()].clone();
                let last = k.len() - 1;
                if k[last] > 0 {
                    k[last] -= 1;
                    k.push(0xff);
                } else {
                    k.pop();
                }
                k
            }
            Bound::Raw(r) => r.clone(),
            Bound::Max => vec![0xff; 8],
        }
    }
}

/// Where best-fit allocation will put an extent of `blocks` blocks right now.
pub fn predict_sector(store: &FeoxStore, blocks: u64) -> u64 {
    let space = store.verif_space();
    space
        .runs_by_start
        .iter()
        .filter(|(_, size)| *size >= blocks)
        .min_by_key(|(start, size)| (*size, *start))
        .map(|(start, _)| *start)
        .unwrap_or(codec::DATA_START)
}

/// Resolve a data operation against the model's view (sequential engines) and run it.
/// Returns the concrete call and the normalised result. Control operations are not handled here.
pub fn resolve_call(
    op: &Op,
    r: &mut Resolver,
    view: &dyn Fn(&[u8]) -> Option<Gen>,
    now: u64,
    store: Option<&FeoxStore>,
) -> Option<Call> {
    let keys = r.keys;
    let k = |i: usize| keys[i % keys.len()].clone();
    Some(match op {
        Op::Insert { key, val, ts, ttl, bytes: _ } => {
            let kb = k(*key);
            let g = view(&kb);
            let cur = g.as_ref().map(|g| g.ts);
            // length 0: rewrite the value the key holds now (a new generation with equal bytes)
            let value = match (&g, val.len) {
                (Some(g), 0) => g.value.clone(),
                _ => r.value(*key % keys.len(), val, store),
            };
            Call::Insert {
                value,
                ts: resolve_ts(ts, cur, now),
                ttl: *ttl,
                with_ttl_api: *ttl > 0,
                key: kb,
            }
        }
        Op::Get { key, .. } => Call::Get { key: k(*key) },
        Op::GetSize { key } => Call::GetSize { key: k(*key) },
        Op::Contains { key } => Call::Contains { key: k(*key) },
        Op::Delete { key, ts } => {
            let kb = k(*key);
            let cur = view(&kb).map(|g| g.ts);
            Call::Delete {
                ts: resolve_ts(ts, cur, now),
                key: kb,
            }
        }
        Op::Cas { key, expect, val, ts, ttl } => {
            let kb = k(*key);
            let g = view(&kb);
            let expected = match (expect, &g) {
                (Expect::Current, Some(g)) => g.value.clone(),
                _ => b"definitely-not-the-current-value".to_vec(),
            };
            // a value of length 0 stands for "the value the key holds now": a swap that changes
            // nothing but the version
            let value = match (&g, val.len) {
                (Some(g), 0) => g.value.clone(),
                _ => r.value(*key % keys.len(), val, store),
            };
            Call::Cas {
                expected,
                value,
                ts: resolve_ts(ts, g.map(|g| g.ts), now),
                ttl: *ttl,
                key: kb,
            }
        }
        Op::Incr { key, delta, ts, ttl } => {
            let kb = k(*key);
            let cur = view(&kb).map(|g| g.ts);
            Call::Incr {
                delta: *delta,
                ts: resolve_ts(ts, cur, now),
                ttl: *ttl,
                key: kb,
            }
        }
        Op::InsertIfAbsent { key, val } => Call::InsertIfAbsent {
            key: k(*key),
            value: r.value(*key % keys.len(), val, store),
        },
        Op::JsonPatch { key, patch, ts } => {
            let kb = k(*key);
            let cur = view(&kb).map(|g| g.ts);
            r.counter += 1;
            Call::JsonPatch {
                patch: patch_doc(patch, r.counter),
                ts: resolve_ts(ts, cur, now),
                key: kb,
            }
        }
        Op::UpdateTtl { key, ttl } => Call::UpdateTtl { key: k(*key), ttl: *ttl },
        Op::Persist { key } => Call::UpdateTtl { key: k(*key), ttl: 0 },
        Op::GetTtl { key } => Call::GetTtl { key: k(*key) },
        Op::Range { start, end, limit } => Call::Range {
            start: r.bound(start),
            end: r.bound(end),
            limit: *limit,
        },
        Op::Flush => Call::Flush,
        Op::BadInsert { which } => {
            let (key, value) = match which % 6 {
                0 => (Vec::new(), b"v".to_vec()),
                1 => (vec![b'K'; crate::model::MAX_KEY + 1], b"v".to_vec()),
                2 => (vec![b'K'; crate::model::MAX_RECOVERABLE_KEY + 1], b"v".to_vec()),
                3 => (b"bad:empty-value".to_vec(), Vec::new()),
                4 => (vec![b'K'; crate::model::MAX_RECOVERABLE_KEY_V1 + 1], b"v".to_vec()),
                _ => (b"bad:huge-value".to_vec(), vec![7u8; crate::model::MAX_VALUE + 1]),
            };
            Call::Insert {
                key,
                value,
                ts: None,
                ttl: 0,
                with_ttl_api: false,
            }
        }
        Op::Reopen | Op::Settle | Op::Advance { .. } | Op::WallToExpiry { .. } | Op::WallJump { .. } | Op::WaitSite { .. } => {
            return None
        }
    })
}

fn ok_or<T>(r: Result<T, FeoxError>, f: impl FnOnce(T) -> Res) -> Res {
    match r {
        Ok(v) => f(v),
        Err(e) => Res::Err(err_kind(&e)),
    }
}

/// Run one concrete call. `bytes_api` selects the zero-copy variants where they exist.
pub fn exec_call(store: &FeoxStore, call: &Call, bytes_api: bool) -> Res {
    match call {
        Call::Insert { key, value, ts, ttl, with_ttl_api } => {
            let r = match (*with_ttl_api, bytes_api) {
                (false, false) => match ts {
                    None => store.insert(key, value),
                    Some(_) => store.insert_with_timestamp(key, value, *ts),
                },
                (false, true) => match ts {
                    None => store.insert_bytes(key, Bytes::from(value.clone())),
                    Some(_) => store.insert_bytes_with_timestamp(key, Bytes::from(value.clone()), *ts),
                },
                (true, false) => match ts {
                    None => store.insert_with_ttl(key, value, *ttl),
                    Some(_) => store.insert_with_ttl_and_timestamp(key, value, *ttl, *ts),
                },
                (true, true) => match ts {
                    None => store.insert_bytes_with_ttl(key, Bytes::from(value.clone()), *ttl),
                    Some(_) => store.insert_bytes_with_ttl_and_timestamp(
                        key,
                        Bytes::from(value.clone()),
                        *ttl,
                        *ts,
                    ),
                },
            };
            ok_or(r, Res::Bool)
        }
        Call::Get { key } => {
            if bytes_api {
                ok_or(store.get_bytes(key), |b| Res::Bytes(b.to_vec()))
            } else {
                ok_or(store.get(key), Res::Bytes)
            }
        }
        Call::GetSize { key } => ok_or(store.get_size(key), Res::Size),
        Call::Contains { key } => Res::Bool(store.contains_key(key)),
        Call::Delete { key, ts } => {
            let r = match ts {
                None => store.delete(key),
                Some(_) => store.delete_with_timestamp(key, *ts),
            };
            ok_or(r, |_| Res::Unit)
        }
        Call::Cas { key, expected, value, ts, ttl } => {
            let r = match (ts, *ttl) {
                (None, 0) => store.compare_and_swap(key, expected, value),
                (Some(_), 0) => store.compare_and_swap_with_timestamp(key, expected, value, *ts),
                (None, t) => store.compare_and_swap_with_ttl(key, expected, value, t),
                (Some(_), t) => {
                    store.compare_and_swap_with_timestamp_and_ttl(key, expected, value, *ts, t)
                }
            };
            ok_or(r, Res::Bool)
        }
        Call::Incr { key, delta, ts, ttl } => {
            let r = match (ts, *ttl) {
                (None, 0) => store.atomic_increment(key, *delta),
                (Some(_), 0) => store.atomic_increment_with_timestamp(key, *delta, *ts),
                (None, t) => store.atomic_increment_with_ttl(key, *delta, t),
                (Some(_), t) => store.atomic_increment_with_timestamp_and_ttl(key, *delta, *ts, t),
            };
            ok_or(r, Res::Int)
        }
        Call::InsertIfAbsent { key, value } => ok_or(store.insert_if_absent(key, value), Res::Bool),
        Call::JsonPatch { key, patch, ts } => {
            let r = match ts {
                None => store.json_patch(key, patch),
                Some(_) => store.json_patch_with_timestamp(key, patch, *ts),
            };
            ok_or(r, |_| Res::Unit)
        }
        Call::UpdateTtl { key, ttl } => {
            let r = if *ttl == 0 {
                store.persist(key)
            } else {
                store.update_ttl(key, *ttl)
            };
            ok_or(r, |_| Res::Unit)
        }
        Call::GetTtl { key } => ok_or(store.get_ttl(key), Res::Opt),
        Call::Range { start, end, limit } => ok_or(store.range_query(start, end, *limit), Res::Pairs),
        Call::Flush => ok_or(store.flush(), |_| Res::Unit),
    }
}

/// The model sees `Some(0)` as automatic, like the store does.
pub fn normalise_call(call: &Call) -> Call {
    let mut c = call.clone();
    match &mut c {
        Call::Insert { ts, .. }
        | Call::Delete { ts, .. }
        | Call::Cas { ts, .. }
        | Call::Incr { ts, .. }
        | Call::JsonPatch { ts, .. } => *ts = explicit(*ts),
        _ => {}
    }
    c
}

pub fn model_cfg(cfg: &StoreCfg, effective_format: u32) -> crate::model::ModelCfg {
    crate::model::ModelCfg {
        ttl: cfg.ttl,
        persistent: cfg.persistent,
        format: effective_format,
        max_memory: cfg.max_memory,
        overhead: FeoxStore::verif_record_overhead(),
        sweeper: cfg.sweeper.is_some() && cfg.ttl,
        sees_all_calls: false,
        judge_collateral_pins: false,
    }
}

pub fn new_model(cfg: &StoreCfg) -> Model {
    Model::new(model_cfg(cfg, cfg.format))
}
