//! Recorded random streams. Every choice of a run is drawn from a tape; a replay file is
//! the tapes (plus the structured scenario). Past the recorded prefix a replayed tape
//! yields zeros ("simplest choice"), a fresh tape yields PRNG output and records it.

use serde::{Deserialize, Serialize};

#[inline]
pub fn splitmix64(state: &mut u64) -> u64 {
    *state = state.wrapping_add(0x9E37_79B9_7F4A_7C15);
    let mut z = *state;
    z = (z ^ (z >> 30)).wrapping_mul(0xBF58_476D_1CE4_E5B9);
    z = (z ^ (z >> 27)).wrapping_mul(0x94D0_49BB_1331_11EB);
    z ^ (z >> 31)
}

pub fn mix(a: u64, b: u64) -> u64 {
    let mut s = a ^ b.wrapping_mul(0xD6E8_FEB8_6659_FD93);
    splitmix64(&mut s)
}

/// Seed for run number `run` of `property` under the top-level seed.
pub fn run_seed(top: u64, property: &str, run: u64) -> u64 {
    let mut h = top;
    for b in property.bytes() {
        h = mix(h, b as u64);
    }
    mix(h, run)
}

#[derive(Clone, Debug, Serialize, Deserialize, Default)]
pub struct Tape {
    pub data: Vec<u32>,
    #[serde(skip)]
    pos: usize,
    #[serde(skip)]
    rng: u64,
    /// true: past the end yield zeros (replay); false: generate and record.
    #[serde(skip)]
    frozen: bool,
}

impl Tape {
    pub fn fresh(seed: u64) -> Self {
        Tape {
            data: Vec::new(),
            pos: 0,
            rng: seed,
            frozen: false,
        }
    }

    pub fn replay(data: Vec<u32>) -> Self {
        Tape {
            data,
            pos: 0,
            rng: 0,
            frozen: true,
        }
    }

    pub fn rewind_frozen(&mut self) {
        self.pos = 0;
        self.frozen = true;
    }

    pub fn consumed(&self) -> usize {
        self.pos
    }

    #[inline]
    pub fn next(&mut self) -> u32 {
        let v = if self.pos < self.data.len() {
            self.data[self.pos]
        } else if self.frozen {
            0
        } else {
            let v = (splitmix64(&mut self.rng) >> 32) as u32;
            self.data.push(v);
            v
        };
        self.pos += 1;
        v
    }

    #[inline]
    pub fn below(&mut self, n: u32) -> u32 {
        debug_assert!(n > 0);
        self.next() % n
    }

    /// Inclusive range.
    pub fn range(&mut self, lo: u64, hi: u64) -> u64 {
        debug_assert!(hi >= lo);
        let span = hi - lo + 1;
        let v = ((self.next() as u64) << 32) | self.next() as u64;
        if span == 0 {
            v
        } else {
            lo + v % span
        }
    }

    /// True with probability num/den. A zero draw is `false`.
    #[inline]
    pub fn chance(&mut self, num: u32, den: u32) -> bool {
        let v = self.next() % den;
        v != 0 && v <= num || (num >= den)
    }

    pub fn pick<'a, T>(&mut self, items: &'a [T]) -> &'a T {
        &items[self.below(items.len() as u32) as usize]
    }

    pub fn u64(&mut self) -> u64 {
        ((self.next() as u64) << 32) | self.next() as u64
    }

    /// Truncate to what was actually consumed (keeps replay files small).
    pub fn trim(&mut self) {
        let n = self.pos.min(self.data.len());
        self.data.truncate(n);
        while self.data.last() == Some(&0) {
            self.data.pop();
        }
    }
}

/// 64-bit FNV-1a style running hash for event logs.
#[derive(Clone, Copy, Debug)]
pub struct LogHash(pub u64);

impl Default for LogHash {
    fn default() -> Self {
        LogHash(0xcbf2_9ce4_8422_2325)
    }
}

impl LogHash {
    #[inline]
    pub fn u64(&mut self, v: u64) {
        self.0 = (self.0 ^ v).wrapping_mul(0x0000_0100_0000_01B3);
        self.0 ^= self.0 >> 29;
    }
    pub fn bytes(&mut self, b: &[u8]) {
        self.u64(b.len() as u64);
        for chunk in b.chunks(8) {
            let mut w = [0u8; 8];
            w[..chunk.len()].copy_from_slice(chunk);
            self.u64(u64::from_le_bytes(w));
        }
    }
    pub fn str(&mut self, s: &str) {
        self.bytes(s.as_bytes());
    }
}
