//! Oracles shared by several engines: full read-back against the model, the quiescent-point
//! partition invariant (C05), the independent decode of the durable image (C10).

use std::collections::BTreeMap;

use crate::codec::{self, DecodeOptions};
use crate::harness::Env;
use crate::model::{Fail, Model};

fn fail<T>(rule: &'static str, detail: String) -> Result<T, Fail> {
    Err(Fail { rule, detail })
}

fn show(k: &[u8]) -> String {
    if k.len() > 24 {
        format!("{}..({}B)", String::from_utf8_lossy(&k[..12]), k.len())
    } else {
        String::from_utf8_lossy(k).into_owned()
    }
}

/// len(), memory_usage() against the model (exact, sequential).
pub fn check_accounting(env: &Env, model: &Model) -> Result<(), Fail> {
    let store = env.st();
    if store.len() != model.map.len() {
        return fail(
            "len-mismatch",
            format!("len() = {} but the model holds {} keys", store.len(), model.map.len()),
        );
    }
    let want = model.memory();
    if store.memory_usage() != want {
        return fail(
            "memory-accounting",
            format!(
                "memory_usage() = {} but sum(overhead + key + value) over live keys = {want}",
                store.memory_usage()
            ),
        );
    }
    Ok(())
}

/// get() of every model key and a full range query, at wall time `now` (clock must not move).
pub fn check_readback(env: &Env, model: &Model, now: u64) -> Result<(), Fail> {
    let store = env.st();
    for (k, g) in &model.map {
        let got = store.get(k);
        let visible = model.visible(g, now);
        match (got, visible) {
            (Ok(v), true) => {
                if v != g.value {
                    return fail(
                        "readback-mismatch",
                        format!(
                            "get({}) returned {} bytes (head {:02x?}) but the model holds {} bytes (head {:02x?})",
                            show(k),
                            v.len(),
                            &v[..v.len().min(12)],
                            g.value.len(),
                            &g.value[..g.value.len().min(12)]
                        ),
                    );
                }
            }
            (Err(feoxdb::FeoxError::KeyNotFound), false) => {}
            (Ok(_), false) => {
                return fail(
                    "expired-visible",
                    format!("get({}) returned a value although it expired at {} (now {now})", show(k), g.expiry),
                )
            }
            (Err(e), _) => {
                return fail(
                    "readback-error",
                    format!("get({}) failed with {e:?}; the model holds a {} byte value (visible={visible})", show(k), g.value.len()),
                )
            }
        }
    }
    let all = store
        .range_query(&[], &[0xff; 64], usize::MAX)
        .map_err(|e| Fail {
            rule: "range-error",
            detail: format!("full range query failed: {e:?}"),
        })?;
    let want: Vec<(Vec<u8>, Vec<u8>)> = model
        .map
        .iter()
        .filter(|(k, g)| model.visible(g, now) && k.as_slice() <= &[0xff; 64][..])
        .map(|(k, g)| (k.clone(), g.value.clone()))
        .collect();
    if all != want {
        let got_keys: Vec<String> = all.iter().map(|(k, _)| show(k)).collect();
        let want_keys: Vec<String> = want.iter().map(|(k, _)| show(k)).collect();
        return fail(
            "range-mismatch",
            format!("full range query returned keys {got_keys:?}, the model says {want_keys:?} (or a value differs)"),
        );
    }
    Ok(())
}

/// Ordered and hashed index agree (quiescent).
pub fn check_indexes_agree(env: &Env) -> Result<(), Fail> {
    let store = env.st();
    let hash: Vec<(Vec<u8>, u64, u64)> = store
        .verif_hash_keys()
        .into_iter()
        .map(|k| (k.key, k.timestamp, k.expiry))
        .collect();
    let tree = store.verif_tree_keys();
    if hash != tree {
        return fail(
            "index-divergence",
            format!(
                "hashed index holds {} generations, ordered index {}: {:?} vs {:?}",
                hash.len(),
                tree.len(),
                hash.iter().map(|(k, t, _)| (show(k), *t)).collect::<Vec<_>>(),
                tree.iter().map(|(k, t, _)| (show(k), *t)).collect::<Vec<_>>()
            ),
        );
    }
    Ok(())
}

#[derive(Default, Debug, Clone)]
pub struct PartitionInfo {
    pub live_extents: usize,
    pub free_runs: usize,
    pub multi_block: usize,
}

/// C05: at a quiescent point every data block is owned by exactly one live extent or is free.
pub fn check_partition(env: &Env) -> Result<PartitionInfo, Fail> {
    let store = env.st();
    let version = store.verif_format_version();
    let total = store.verif_device_size() / codec::BLOCK as u64;
    let keys = store.verif_hash_keys();
    let space = store.verif_space();
    let mut info = PartitionInfo::default();

    let mut owned: Vec<(u64, u64, String)> = Vec::new();
    for k in &keys {
        if k.sector == 0 {
            return fail(
                "unflushed-at-quiescence",
                format!("key {} has no extent although flush was acknowledged and nothing is pending", show(&k.key)),
            );
        }
        let blocks = codec::extent_blocks(version, k.key.len(), k.value_len);
        if k.sector < codec::DATA_START || k.sector + blocks > total {
            return fail(
                "extent-out-of-bounds",
                format!("key {} extent {}+{blocks} leaves the data area 16..{total}", show(&k.key), k.sector),
            );
        }
        if blocks > 1 {
            info.multi_block += 1;
        }
        owned.push((k.sector, blocks, format!("key {}", show(&k.key))));
    }
    info.live_extents = owned.len();
    for (start, size) in &space.runs_by_start {
        if *size == 0 || *start < codec::DATA_START || start + size > total {
            return fail("free-run-out-of-bounds", format!("free run {start}+{size} invalid for data area 16..{total}"));
        }
        owned.push((*start, *size, "free".to_string()));
    }
    info.free_runs = space.runs_by_start.len();
    owned.sort();
    let mut at = codec::DATA_START;
    let mut prev_free = false;
    for (start, size, who) in &owned {
        if *start < at {
            return fail(
                "block-double-owned",
                format!("blocks {start}..{} ({who}) overlap the previous owner ending at {at}", start + size),
            );
        }
        if *start > at {
            return fail(
                "block-leaked",
                format!("blocks {at}..{start} belong to no live record and are not in the free pool"),
            );
        }
        let is_free = who == "free";
        if is_free && prev_free {
            return fail("free-runs-not-coalesced", format!("free run at {start} is adjacent to the previous free run"));
        }
        prev_free = is_free;
        at = start + size;
    }
    if at != total {
        return fail("block-leaked", format!("blocks {at}..{total} belong to no live record and are not in the free pool"));
    }
    let mut by_size = space.runs_by_size.clone();
    by_size.sort();
    let mut by_start = space.runs_by_start.clone();
    by_start.sort();
    if by_size != by_start {
        return fail("free-index-divergence", format!("size-ordered free index {by_size:?} differs from address-ordered {by_start:?}"));
    }
    let sum: u64 = space.runs_by_start.iter().map(|(_, s)| s * codec::BLOCK as u64).sum();
    let largest = space.runs_by_start.iter().map(|(_, s)| s * codec::BLOCK as u64).max().unwrap_or(0);
    if space.total_free_bytes != sum || space.largest_free_bytes != largest || space.free_chunks != space.runs_by_start.len() {
        return fail(
            "free-totals",
            format!(
                "free-space manager reports total={} largest={} chunks={} but its runs give total={sum} largest={largest} chunks={}",
                space.total_free_bytes, space.largest_free_bytes, space.free_chunks, space.runs_by_start.len()
            ),
        );
    }
    let used: u64 = keys
        .iter()
        .map(|k| codec::extent_blocks(version, k.key.len(), k.value_len) * codec::BLOCK as u64)
        .sum();
    if store.verif_disk_usage() != used {
        return fail("disk-usage-counter", format!("disk usage counter {} but live extents occupy {used} bytes", store.verif_disk_usage()));
    }
    Ok(info)
}

#[derive(Default, Debug, Clone)]
pub struct ImageInfo {
    pub records: usize,
    pub version: u32,
    pub stale_on_disk: usize,
    pub retired_extents: usize,
}

/// C10: the durable image, read by the independent decoder, holds exactly the model.
pub fn check_durable_image(env: &Env, model: &Model, check_counters: bool) -> Result<ImageInfo, Fail> {
    let disk = env.disk.as_ref().expect("persistent");
    let image = disk.durable_image();
    let decoded = codec::decode_image(&image, DecodeOptions { allow_ambiguous: false, apply_journal: true })
        .map_err(|why| Fail {
            rule: "image-rejected",
            detail: format!("independent reader rejects the durable image after flush: {why}"),
        })?;
    let store = env.st();
    if decoded.version != store.verif_format_version() {
        return fail("format-version", format!("metadata says v{} but the store runs v{}", decoded.version, store.verif_format_version()));
    }
    if decoded.journal.as_ref().is_some_and(|j| j.active) {
        return fail("journal-active-after-flush", "allocation journal is active in the durable image after flush".into());
    }
    // every block of a retired extent carries its own marker (new-style markers only: a legacy
    // device keeps the zero-filled markers its old writer left)
    if let Err(why) = codec::verify_marker_chains(&image, &decoded) {
        return fail("retirement-marker-chain", format!("durable image after flush: {why}"));
    }
    let want: BTreeMap<&Vec<u8>, &crate::model::Gen> = model.map.iter().collect();
    for (k, g) in &want {
        match decoded.live.get(*k) {
            None => return fail("image-missing-key", format!("key {} (ts={}) is not in the durable image after flush", show(k), g.ts)),
            Some(r) => {
                if r.timestamp != g.ts || r.expiry != g.expiry || r.value != g.value {
                    return fail(
                        "image-generation-mismatch",
                        format!(
                            "key {}: image holds (ts={}, expiry={}, {}B) but the model holds (ts={}, expiry={}, {}B){}",
                            show(k), r.timestamp, r.expiry, r.value.len(), g.ts, g.expiry, g.value.len(),
                            if r.value != g.value && r.value.len() == g.value.len() { " (bytes differ)" } else { "" }
                        ),
                    );
                }
                if let Some(vk) = store.verif_key(k) {
                    if vk.sector != r.sector {
                        return fail("image-sector-mismatch", format!("key {}: store says block {} but the record is at block {}", show(k), vk.sector, r.sector));
                    }
                }
            }
        }
    }
    for k in decoded.live.keys() {
        if !want.contains_key(k) {
            return fail("image-extra-key", format!("durable image exposes key {} that the model does not hold", show(k)));
        }
    }
    if check_counters {
        let meta = decoded.meta.as_ref().unwrap();
        let total_size: u64 = decoded.live.values().map(|r| r.blocks * codec::BLOCK as u64).sum();
        if meta.total_records != decoded.live.len() as u64 || meta.total_size != total_size {
            return fail(
                "metadata-counters",
                format!(
                    "metadata ({}) says records={} size={} but the image holds {} live records in {} bytes",
                    decoded.meta_source, meta.total_records, meta.total_size, decoded.live.len(), total_size
                ),
            );
        }
        if meta.device_size != image.len() as u64 {
            return fail("metadata-device-size", format!("metadata device size {} != {}", meta.device_size, image.len()));
        }
    }
    Ok(ImageInfo {
        records: decoded.live.len(),
        version: decoded.version,
        stale_on_disk: decoded.stale.len(),
        retired_extents: decoded.retired_extents.len(),
    })
}

/// Extents still to be written (records without a sector), as block counts.
pub fn unflushed_extents(env: &Env) -> Vec<(Vec<u8>, u64)> {
    let store = env.st();
    let version = store.verif_format_version();
    store
        .verif_hash_keys()
        .into_iter()
        .filter(|k| k.sector == 0)
        .map(|k| {
            let blocks = codec::extent_blocks(version, k.key.len(), k.value_len);
            (k.key, blocks)
        })
        .collect()
}

/// Could the buffered records fail to fit into the current free runs (best fit, no help from
/// retirements)? Conservative: `true` means a clean close may legitimately lose them.
/// The batch is allocated in buffer order, which the harness does not see, and best fit can
/// fragment the free runs for one order and not for another: few extents are tried in every
/// order, many are judged by the order-independent bound (everything fits into the largest run).
pub fn capacity_risk(env: &Env) -> bool {
    if !env.cfg.persistent {
        return false;
    }
    let runs: Vec<(u64, u64)> = env.st().verif_space().runs_by_start;
    let mut need: Vec<u64> = unflushed_extents(env).into_iter().map(|(_, b)| b).collect();
    if need.is_empty() {
        return false;
    }
    let total: u64 = need.iter().sum();
    let largest = runs.iter().map(|(_, s)| *s).max().unwrap_or(0);
    if total <= largest {
        return false;
    }
    if need.len() > 7 {
        return true;
    }
    fn fits(order: &[u64], runs: &[(u64, u64)]) -> bool {
        let mut runs = runs.to_vec();
        for blocks in order {
            let Some(pos) = runs
                .iter()
                .enumerate()
                .filter(|(_, (_, size))| size >= blocks)
                .min_by_key(|(_, (start, size))| (*size, *start))
                .map(|(i, _)| i)
            else {
                return false;
            };
            let (start, size) = runs[pos];
            if size == *blocks {
                runs.remove(pos);
            } else {
                runs[pos] = (start + blocks, size - blocks);
            }
        }
        true
    }
    // Heap's algorithm over the (at most 7) extents
    fn any_order_fails(k: usize, need: &mut Vec<u64>, runs: &[(u64, u64)]) -> bool {
        if k <= 1 {
            return !fits(need, runs);
        }
        for i in 0..k {
            if any_order_fails(k - 1, need, runs) {
                return true;
            }
            if k % 2 == 0 {
                need.swap(i, k - 1);
            } else {
                need.swap(0, k - 1);
            }
        }
        false
    }
    let n = need.len();
    any_order_fails(n, &mut need, &runs)
}

/// C05: flush may answer OutOfSpace only when some buffered extent is longer than the
/// largest free run (after the retirements the failing flush itself performed).
pub fn out_of_space_is_justified(env: &Env) -> Result<(), Fail> {
    let space = env.st().verif_space();
    let largest = space.runs_by_start.iter().map(|(_, s)| *s).max().unwrap_or(0);
    let pending = unflushed_extents(env);
    // A batch is allocated extent by extent (best fit) and fails as a whole, so the sound
    // claim is: if everything still buffered fits into the largest free run together, no
    // allocation order can run out of space.
    let total: u64 = pending.iter().map(|(_, b)| *b).sum();
    if total > largest {
        return Ok(());
    }
    fail(
        "spurious-out-of-space",
        format!(
            "flush() returned OutOfSpace although all buffered extents ({:?} blocks, {total} in total) fit the largest free run ({largest} blocks)",
            pending.iter().map(|(_, b)| *b).collect::<Vec<_>>()
        ),
    )
}

/// memory_usage() and len() against what the indexes actually hold (no model needed).
pub fn check_accounting_observed(env: &Env) -> Result<(), Fail> {
    let store = env.st();
    let overhead = feoxdb::FeoxStore::verif_record_overhead();
    let keys = store.verif_hash_keys();
    let want: usize = keys.iter().map(|k| overhead + k.key.len() + k.value_len).sum();
    if store.memory_usage() != want {
        return fail(
            "memory-accounting",
            format!("memory_usage() = {} but sum(overhead + key + value) over the {} indexed keys = {want}", store.memory_usage(), keys.len()),
        );
    }
    if store.len() != keys.len() {
        return fail("len-mismatch", format!("len() = {} but {} keys are indexed", store.len(), keys.len()));
    }
    Ok(())
}
