//! Executing one scenario under the simulator and turning it into an outcome record.

use std::collections::BTreeMap;
use std::sync::Arc;

use serde::{Deserialize, Serialize};

use crate::disk::DiskStats;
use crate::scenario::{ReplayFile, Scenario, REPLAY_VERSION};
use crate::sched::{Fatal, FatalKind, Sim, SimStats};
use crate::tape::Tape;

#[derive(Clone, Debug, Serialize, Deserialize, PartialEq, Eq)]
pub enum Verdict {
    Ok,
    Violation { rule: String, detail: String },
    Inconclusive { reason: String },
}

#[derive(Clone, Debug, Serialize, Deserialize)]
pub struct Outcome {
    pub seed: u64,
    pub verdict: Verdict,
    pub sim: SimStats,
    pub disk: DiskStats,
    /// engine-defined counters (ops by kind, probes, crash points, images, faults ...)
    pub counters: BTreeMap<String, u64>,
    /// hashes of abstract states visited (model state x tier vector)
    pub states: Vec<u64>,
    /// did this run exercise the property in a non-trivial way (engine rule)
    pub nontrivial: bool,
    /// hash identifying the case (scenario + what actually happened)
    pub case_hash: u64,
    pub ops: u64,
    pub wall_us: u64,
    pub replay: Option<String>,
}

/// What an engine's body reports back.
#[derive(Default)]
pub struct BodyReport {
    pub violation: Option<(String, String)>,
    pub inconclusive: Option<String>,
    pub counters: BTreeMap<String, u64>,
    pub states: Vec<u64>,
    pub nontrivial: bool,
    pub ops: u64,
    pub disk: DiskStats,
    pub extra_hash: u64,
}

impl BodyReport {
    pub fn count(&mut self, name: &str, n: u64) {
        *self.counters.entry(name.to_string()).or_insert(0) += n;
    }
    pub fn fail(&mut self, rule: &str, detail: String) {
        if self.violation.is_none() {
            self.violation = Some((rule.to_string(), detail));
        }
    }
}

pub trait Engine: Sync {
    fn name(&self) -> &'static str;
    /// Build the scenario for one run from its seed.
    fn generate(&self, property: &str, seed: u64, tier: &str) -> Scenario;
    /// Run on the root thread of an entered simulator.
    fn body(&self, sim: &Arc<Sim>, sc: &Scenario) -> BodyReport;
    /// One-line description of what makes a run non-trivial for `property`.
    fn nontrivial_rule(&self, property: &str) -> String;
}

/// Where fatal conditions (deadlock, liveness, budget, panic) leave their record.
pub struct FatalSink {
    pub scenario: Scenario,
    pub out_path: Option<String>,
    pub replay_dir: String,
    pub print: bool,
}

pub fn replay_path(dir: &str, sc: &Scenario, suffix: &str) -> String {
    format!("{dir}/{}-{}-{:016x}{suffix}.json", sc.property, sc.engine, sc.seed)
}

pub fn write_replay(path: &str, sc: &Scenario, sched: &Tape, fault: &Tape, rule: &str, detail: &str) {
    let file = ReplayFile {
        version: REPLAY_VERSION,
        scenario: sc.clone(),
        sched: sched.clone(),
        fault: fault.clone(),
        rule: rule.to_string(),
        detail: detail.to_string(),
    };
    if let Some(parent) = std::path::Path::new(path).parent() {
        let _ = std::fs::create_dir_all(parent);
    }
    let _ = std::fs::write(path, serde_json::to_vec(&file).unwrap());
}

/// Message of the most recent panic anywhere in the process (set by the panic hook).
pub static LAST_PANIC: std::sync::Mutex<String> = std::sync::Mutex::new(String::new());

pub const EXIT_FATAL_VIOLATION: i32 = 10;
pub const EXIT_FATAL_INCONCLUSIVE: i32 = 11;
pub const EXIT_HANG: i32 = 13;

fn fatal_rule(kind: &FatalKind) -> &'static str {
    match kind {
        FatalKind::Deadlock => "deadlock",
        FatalKind::Liveness => "liveness",
        FatalKind::Budget => "budget",
        FatalKind::Panic => "panic",
    }
}

fn install_fatal_hook(sim: &Arc<Sim>, sink: FatalSink) {
    let start = std::time::Instant::now();
    sim.set_fatal_hook(Box::new(move |fatal: &Fatal| {
        let rule = fatal_rule(&fatal.kind);
        // a step budget exhausted while opening a damaged image is the "loops" clause of C17
        let inconclusive = fatal.kind == FatalKind::Budget && sink.scenario.engine != "corr";
        let path = replay_path(&sink.replay_dir, &sink.scenario, "");
        if !inconclusive {
            write_replay(&path, &sink.scenario, &fatal.sched, &fatal.fault, rule, &fatal.detail);
        }
        let outcome = Outcome {
            seed: sink.scenario.seed,
            verdict: if inconclusive {
                Verdict::Inconclusive {
                    reason: fatal.detail.lines().next().unwrap_or("").to_string(),
                }
            } else {
                Verdict::Violation {
                    rule: rule.to_string(),
                    detail: fatal.detail.clone(),
                }
            },
            sim: SimStats {
                steps: fatal.steps,
                virtual_ns: fatal.virtual_ns,
                ..Default::default()
            },
            disk: DiskStats::default(),
            counters: BTreeMap::new(),
            states: Vec::new(),
            nontrivial: true,
            case_hash: sink.scenario.seed,
            ops: sink.scenario.op_count() as u64,
            wall_us: start.elapsed().as_micros() as u64,
            replay: (!inconclusive).then(|| path.clone()),
        };
        let line = serde_json::to_string(&outcome).unwrap();
        if let Some(out) = &sink.out_path {
            use std::io::Write;
            if let Ok(mut f) = std::fs::OpenOptions::new().create(true).append(true).open(out) {
                let _ = writeln!(f, "{line}");
            }
        }
        if sink.print {
            println!("{line}");
            if !fatal.trace_tail.is_empty() {
                println!("---- {} / {} (run seed {}): store {:?}", sink.scenario.property, sink.scenario.engine, sink.scenario.seed, sink.scenario.store);
                println!("sim: strategy={:?} tick_ns={} shards={} workers={}", sink.scenario.sim.strategy, sink.scenario.sim.tick_ns, sink.scenario.sim.shards, sink.scenario.sim.workers);
                for (c, ops) in sink.scenario.clients.iter().enumerate() {
                    for (i, op) in ops.iter().enumerate() {
                        println!("client {c} op #{i}: {op:?}");
                    }
                }
                println!("---- schedule (last {} steps before the fatal condition): step thread site", fatal.trace_tail.len());
                for (step, thread, name, site) in &fatal.trace_tail {
                    println!("{step:>7} t{thread} {name:<12} {site}");
                }
                println!("---- {}", fatal.detail);
            }
        }
        crate::harness::remove_scratch_dir();
        std::process::exit(if inconclusive {
            EXIT_FATAL_INCONCLUSIVE
        } else {
            EXIT_FATAL_VIOLATION
        });
    }));
}

/// Execute one scenario in this process. Fatal conditions do not return (see `FatalSink`).
pub fn run_scenario(
    engine: &dyn Engine,
    sc: &Scenario,
    sched: Tape,
    fault: Tape,
    trace: bool,
    sink: FatalSink,
) -> (Outcome, Tape, Tape, Arc<Sim>) {
    let start = std::time::Instant::now();
    let replay_dir = sink.replay_dir.clone();
    let sim = Sim::new(sc.sim.clone(), sched, fault, trace);
    install_fatal_hook(&sim, sink);
    sim.enter_root();
    let body = std::panic::catch_unwind(std::panic::AssertUnwindSafe(|| engine.body(&sim, sc)));
    let mut report = match body {
        Ok(report) => report,
        Err(payload) => {
            let msg = payload
                .downcast_ref::<String>()
                .cloned()
                .or_else(|| payload.downcast_ref::<&str>().map(|s| s.to_string()))
                .unwrap_or_else(|| "panic".to_string());
            sim.fatal_external(FatalKind::Panic, format!("panic on the root thread: {msg}"));
        }
    };
    sim.leave_root();
    for (rule, detail) in sim.take_violations() {
        report.fail(&rule, detail);
    }
    let stats = sim.stats();
    let (sched, fault) = sim.take_tapes();
    let verdict = match (&report.violation, &report.inconclusive) {
        (Some((rule, detail)), _) => Verdict::Violation {
            rule: rule.clone(),
            detail: detail.clone(),
        },
        (None, Some(reason)) => Verdict::Inconclusive {
            reason: reason.clone(),
        },
        (None, None) => Verdict::Ok,
    };
    let mut replay = None;
    if let Verdict::Violation { rule, detail } = &verdict {
        let path = replay_path(&replay_dir, sc, "");
        write_replay(&path, sc, &sched, &fault, rule, detail);
        replay = Some(path);
    }
    let case_hash = crate::tape::mix(stats.log_hash, report.extra_hash);
    let outcome = Outcome {
        seed: sc.seed,
        verdict,
        sim: stats,
        disk: report.disk,
        counters: report.counters,
        states: report.states,
        nontrivial: report.nontrivial,
        case_hash,
        ops: report.ops,
        wall_us: start.elapsed().as_micros() as u64,
        replay,
    };
    (outcome, sched, fault, sim)
}
