//! Simulated block device: page cache vs. durable image, pending and limbo writes,
//! injected I/O faults, crash capture and crash-image families.

use std::fs::File;
use std::io;
use std::os::unix::fs::FileExt;
use std::sync::{Arc, Mutex, Weak};

use feoxdb::verif::{Controller, RingCqe, RingSqe, SimDevice, SimRing};
use serde::{Deserialize, Serialize};

use crate::sched::Sim;
use crate::tape::Tape;

pub const BLOCK: usize = 4096;
pub const SECTOR: usize = 512;

#[derive(Clone, Copy, Debug, Serialize, Deserialize, PartialEq, Eq, Hash, PartialOrd, Ord)]
pub enum FaultKind {
    /// write fails, nothing reaches the device
    WriteFailBefore,
    /// write reaches the page cache (and may reach the platter) but reports an error
    WriteFailAfter,
    /// first k sectors applied, error reported
    WriteShort,
    /// ENOSPC, nothing written
    WriteNoSpace,
    /// fsync fails: pending writes become limbo (readable, never made durable by later fsyncs)
    FsyncFail,
    /// fsync makes everything durable but reports an error
    FsyncFailAfter,
    /// read fails
    ReadFail,
    /// io_uring_enter fails with an errno other than EINTR: the kernel may have taken any prefix of
    /// the queued entries and may execute them at any later time (indeterminate)
    RingEnterFail,
    /// io_uring_enter is interrupted while waiting: everything was submitted, some completions are in
    RingEintr,
    /// a push finds the submission queue full
    RingSqFull,
}

pub const ALL_WRITE_FAULTS: [FaultKind; 4] = [
    FaultKind::WriteFailBefore,
    FaultKind::WriteFailAfter,
    FaultKind::WriteShort,
    FaultKind::WriteNoSpace,
];
pub const ALL_FSYNC_FAULTS: [FaultKind; 2] = [FaultKind::FsyncFail, FaultKind::FsyncFailAfter];
pub const ALL_ENTER_FAULTS: [FaultKind; 2] = [FaultKind::RingEnterFail, FaultKind::RingEintr];

#[derive(Clone, Debug, Serialize, Deserialize, Default)]
pub struct FaultPlan {
    /// explicit faults: (index among write+fsync+read calls of this device, kind)
    pub at_call: Vec<(u64, FaultKind)>,
    /// from this call on every write/fsync fails (persistent failure)
    pub dead_from_call: Option<u64>,
    /// random faults: per mille probability per call for each enabled kind
    pub random_per_mille: u32,
    pub random_kinds: Vec<FaultKind>,
    /// random faults stop after this many device calls (so the system can heal)
    pub random_until_call: u64,
    /// capture a crash image when the device-call counter reaches this value
    pub crash_at_call: Option<u64>,
    /// every write issued while the virtual monotonic clock is inside [from, to) fails before
    /// anything reaches the device (a device that is unavailable for a while and then heals)
    #[serde(default)]
    pub write_fail_window_ns: Option<(u64, u64)>,
    /// targeted fault: from device call `.0` on, the next `.1` writes to a metadata copy (block 0
    /// or 7) are short writes cut at an arbitrary byte (a pwrite that returns early)
    #[serde(default)]
    pub short_metadata_writes: Option<(u64, u32)>,
}

#[derive(Clone, Copy, Debug, Serialize, Deserialize, PartialEq, Eq)]
pub enum DevOp {
    Read,
    Write,
    Fsync,
    /// io_uring_enter of the simulated ring (a device call of its own: scheduling, crash and fault point)
    Enter,
}

#[derive(Clone, Debug, Serialize)]
pub struct DevEvent {
    pub event: u64,
    pub call: u64,
    pub thread: Option<usize>,
    pub op: DevOp,
    pub offset: u64,
    pub len: usize,
    pub fault: Option<FaultKind>,
    pub ok: bool,
}

#[derive(Clone, Debug)]
pub struct PendingWrite {
    pub offset: u64,
    pub data: Vec<u8>,
    pub event: u64,
    pub limbo: bool,
}

/// Everything needed to build the family of images a power loss at this instant could leave.
#[derive(Clone)]
pub struct CrashCapture {
    pub at_call: u64,
    pub at_event: u64,
    pub durable: Vec<u8>,
    /// limbo and pending writes in issue order
    pub unsynced: Vec<PendingWrite>,
}

struct State {
    size: usize,
    cache: Vec<u8>,
    durable: Vec<u8>,
    unsynced: Vec<PendingWrite>,
    calls: u64,
    log: Vec<DevEvent>,
    log_enabled: bool,
    plan: FaultPlan,
    dead: bool,
    capture: Option<CrashCapture>,
    faults_fired: std::collections::BTreeMap<FaultKind, u64>,
    writes: u64,
    fsyncs: u64,
    reads: u64,
    write_lat_ns: u64,
    fsync_lat_ns: u64,
    read_lat_ns: u64,
    /// blocks written since creation/reset (C04: recovery must not touch live extents)
    written_blocks: Vec<(u64, u64)>,
    dirty_file: bool,
    /// (sector, blocks) ranges that must never be written (C08 pinned extents are checked live)
    monitor_writes: bool,
    /// 0: no ring (synchronous path), 1: simulated io_uring, 2: ring and O_DIRECT behaviour
    ring_mode: u8,
    /// entries the kernel has taken and not completed yet
    ring_inflight: Vec<Inflight>,
    /// entries the kernel still owned when the ring was closed: it may read their memory at any later time
    ring_orphans: Vec<Inflight>,
    enters: u64,
    ring_writes: u64,
    ring_orphans_total: u64,
    ring_late_reads: u64,
}

#[derive(Clone, Copy)]
struct Inflight {
    sqe: RingSqe,
    /// checksum of the memory at submission: a buffer the kernel owns must not change
    sum: u64,
}

fn ring_sum(sqe: &RingSqe) -> u64 {
    // the simulated kernel reads the caller's memory exactly as the real one does (under
    // AddressSanitizer a read of freed memory is reported here)
    let bytes = unsafe { std::slice::from_raw_parts(sqe.ptr, sqe.len as usize) };
    let mut h = 0xcbf2_9ce4_8422_2325u64;
    for chunk in bytes.chunks(8) {
        let mut w = [0u8; 8];
        w[..chunk.len()].copy_from_slice(chunk);
        h = (h ^ u64::from_le_bytes(w)).wrapping_mul(0x1000_0000_01b3).rotate_left(23);
    }
    h
}

/// Asked after every successful write with the block range it covered; `Some(detail)` is a violation.
pub type WriteGuard = Box<dyn Fn(u64, u64) -> Option<String> + Send + Sync>;

pub struct SimDisk {
    me: Weak<SimDisk>,
    sim: Weak<Sim>,
    file: File,
    pub label: String,
    state: Mutex<State>,
    write_guard: Mutex<Option<WriteGuard>>,
}

#[derive(Clone, Debug, Default, Serialize, Deserialize)]
pub struct DiskStats {
    pub reads: u64,
    pub writes: u64,
    pub fsyncs: u64,
    pub calls: u64,
    pub faults_fired: std::collections::BTreeMap<String, u64>,
    /// simulated io_uring: enter calls, writes executed through the ring, entries orphaned by a
    /// closed ring, late reads of orphaned entries
    #[serde(default)]
    pub ring: [u64; 4],
}

impl SimDisk {
    /// Adopt `file` with its current contents as cache = durable image.
    pub fn from_file(sim: &Arc<Sim>, file: &File, label: &str) -> Arc<SimDisk> {
        let len = file.metadata().map(|m| m.len()).unwrap_or(0) as usize;
        let mut image = vec![0u8; len];
        if len > 0 {
            let _ = file.read_exact_at(&mut image, 0);
        }
        Self::from_image(sim, file.try_clone().expect("clone device file"), image, label)
    }

    pub fn from_image(sim: &Arc<Sim>, file: File, image: Vec<u8>, label: &str) -> Arc<SimDisk> {
        Arc::new_cyclic(|me| SimDisk {
            me: me.clone(),
            sim: Arc::downgrade(sim),
            file,
            label: label.to_string(),
            state: Mutex::new(State {
                size: image.len(),
                cache: image.clone(),
                durable: image,
                unsynced: Vec::new(),
                calls: 0,
                log: Vec::new(),
                log_enabled: true,
                plan: FaultPlan::default(),
                dead: false,
                capture: None,
                faults_fired: Default::default(),
                writes: 0,
                fsyncs: 0,
                reads: 0,
                write_lat_ns: 20_000,
                fsync_lat_ns: 500_000,
                read_lat_ns: 10_000,
                written_blocks: Vec::new(),
                dirty_file: false,
                monitor_writes: false,
                ring_mode: 0,
                ring_inflight: Vec::new(),
                ring_orphans: Vec::new(),
                enters: 0,
                ring_writes: 0,
                ring_orphans_total: 0,
                ring_late_reads: 0,
            }),
            write_guard: Mutex::new(None),
        })
    }

    /// A device registered before the store sized its file takes the file's contents now.
    pub fn adopt_if_empty(&self, file: &File) {
        let mut s = self.state.lock().unwrap();
        if s.size != 0 {
            return;
        }
        let len = file.metadata().map(|m| m.len()).unwrap_or(0) as usize;
        if len == 0 {
            return;
        }
        let mut image = vec![0u8; len];
        let _ = file.read_exact_at(&mut image, 0);
        s.size = len;
        s.cache = image.clone();
        s.durable = image;
    }

    /// 0: synchronous path, 1: simulated io_uring, 2: simulated io_uring with O_DIRECT behaviour.
    /// Takes effect at the next open of the device.
    pub fn set_ring_mode(&self, mode: u8) {
        self.state.lock().unwrap().ring_mode = mode;
    }

    /// (enter calls, writes executed through the ring, entries orphaned by a closed ring, late reads of orphans)
    pub fn ring_stats(&self) -> (u64, u64, u64, u64) {
        let s = self.state.lock().unwrap();
        (s.enters, s.ring_writes, s.ring_orphans_total, s.ring_late_reads)
    }

    /// The kernel gets round to the entries it still owned when their ring was closed: it reads
    /// their memory now. The store has long moved on; if it released those buffers the read hits
    /// freed (AddressSanitizer) or reused memory (checksum).
    pub fn ring_finish(&self) {
        let orphans = std::mem::take(&mut self.state.lock().unwrap().ring_orphans);
        for o in orphans {
            let now = ring_sum(&o.sqe);
            self.state.lock().unwrap().ring_late_reads += 1;
            if now != o.sum {
                if let Some(sim) = self.sim.upgrade() {
                    sim.violation(
                        "inflight-buffer-reused",
                        format!(
                            "the {} bytes queued for offset {} changed after the ring that carried them was closed with the write still owned by the kernel: the buffer was released or reused while the kernel may still read it",
                            o.sqe.len, o.sqe.offset
                        ),
                    );
                }
            }
        }
    }

    pub fn set_plan(&self, plan: FaultPlan) {
        self.state.lock().unwrap().plan = plan;
    }

    pub fn set_latency(&self, read_ns: u64, write_ns: u64, fsync_ns: u64) {
        let mut s = self.state.lock().unwrap();
        s.read_lat_ns = read_ns;
        s.write_lat_ns = write_ns;
        s.fsync_lat_ns = fsync_ns;
    }

    /// Always-on monitor of the store that owns this device (installed by `Env::open`).
    pub fn set_write_guard(&self, guard: Option<WriteGuard>) {
        *self.write_guard.lock().unwrap() = guard;
    }

    pub fn set_monitor_writes(&self, on: bool) {
        self.state.lock().unwrap().monitor_writes = on;
    }

    pub fn clear_faults(&self) {
        let mut s = self.state.lock().unwrap();
        s.plan = FaultPlan::default();
    }

    pub fn calls(&self) -> u64 {
        self.state.lock().unwrap().calls
    }

    pub fn is_dead(&self) -> bool {
        self.state.lock().unwrap().dead
    }

    pub fn kill(&self) {
        self.state.lock().unwrap().dead = true;
    }

    pub fn size(&self) -> usize {
        self.state.lock().unwrap().size
    }

    /// Current contents as reads see them.
    pub fn cache_image(&self) -> Vec<u8> {
        self.state.lock().unwrap().cache.clone()
    }

    /// Contents guaranteed to survive a power loss right now.
    pub fn durable_image(&self) -> Vec<u8> {
        self.state.lock().unwrap().durable.clone()
    }

    pub fn unsynced(&self) -> Vec<PendingWrite> {
        self.state.lock().unwrap().unsynced.clone()
    }

    pub fn take_capture(&self) -> Option<CrashCapture> {
        self.state.lock().unwrap().capture.take()
    }

    /// Capture the crash state right now (between device calls).
    pub fn capture_now(&self) -> CrashCapture {
        let s = self.state.lock().unwrap();
        CrashCapture {
            at_call: s.calls,
            at_event: self.sim.upgrade().map_or(0, |sim| sim.current_event()),
            durable: s.durable.clone(),
            unsynced: s.unsynced.clone(),
        }
    }

    /// The device was replaced (a new image was installed): keep the call log for traces, drop
    /// the contents - a run that recovers hundreds of images must not keep them all in memory.
    pub fn discard_contents(&self) {
        let mut s = self.state.lock().unwrap();
        s.cache = Vec::new();
        s.durable = Vec::new();
        s.unsynced = Vec::new();
        s.capture = None;
        s.dead = true;
        // the backing file is unlinked by now but stays open as long as the run's device registry
        // holds this object: give its pages back (thousands of images per run in the thorough tier)
        let _ = self.file.set_len(0);
    }

    pub fn log(&self) -> Vec<DevEvent> {
        self.state.lock().unwrap().log.clone()
    }

    pub fn take_written_blocks(&self) -> Vec<(u64, u64)> {
        std::mem::take(&mut self.state.lock().unwrap().written_blocks)
    }

    pub fn stats(&self) -> DiskStats {
        let s = self.state.lock().unwrap();
        DiskStats {
            reads: s.reads,
            writes: s.writes,
            fsyncs: s.fsyncs,
            calls: s.calls,
            ring: [s.enters, s.ring_writes, s.ring_orphans_total, s.ring_late_reads],
            faults_fired: s
                .faults_fired
                .iter()
                .map(|(k, v)| (format!("{k:?}"), *v))
                .collect(),
        }
    }

    /// Write the cache image into the backing file (needed before a path-based open).
    pub fn materialize(&self) {
        let mut s = self.state.lock().unwrap();
        if s.dirty_file {
            let _ = self.file.write_all_at(&s.cache, 0);
            s.dirty_file = false;
        }
    }

    fn decide_fault(&self, s: &mut State, sim: &Arc<Sim>, op: DevOp) -> Option<FaultKind> {
        let call = s.calls;
        if let Some(pos) = s.plan.at_call.iter().position(|(c, k)| {
            *c == call
                && match op {
                    DevOp::Write => ALL_WRITE_FAULTS.contains(k),
                    DevOp::Fsync => ALL_FSYNC_FAULTS.contains(k),
                    DevOp::Read => *k == FaultKind::ReadFail,
                    DevOp::Enter => ALL_ENTER_FAULTS.contains(k),
                }
        }) {
            return Some(s.plan.at_call[pos].1);
        }
        if let (DevOp::Write, Some((from, to))) = (op, s.plan.write_fail_window_ns) {
            let now = sim.now_mono();
            if now >= from && now < to {
                return Some(FaultKind::WriteFailBefore);
            }
        }
        if s.plan.dead_from_call.is_some_and(|d| call >= d) {
            return match op {
                DevOp::Write => Some(FaultKind::WriteFailBefore),
                DevOp::Fsync => Some(FaultKind::FsyncFail),
                DevOp::Read => None,
                DevOp::Enter => None,
            };
        }
        if s.plan.random_per_mille > 0 && call < s.plan.random_until_call {
            let kinds: Vec<FaultKind> = s
                .plan
                .random_kinds
                .iter()
                .copied()
                .filter(|k| match op {
                    DevOp::Write => ALL_WRITE_FAULTS.contains(k),
                    DevOp::Fsync => ALL_FSYNC_FAULTS.contains(k),
                    DevOp::Read => *k == FaultKind::ReadFail,
                    DevOp::Enter => ALL_ENTER_FAULTS.contains(k),
                })
                .collect();
            if !kinds.is_empty() {
                let rate = s.plan.random_per_mille;
                let hit = sim.fault_draw(|t: &mut Tape| {
                    if t.chance(rate, 1000) {
                        Some(*t.pick(&kinds))
                    } else {
                        None
                    }
                });
                return hit;
            }
        }
        None
    }

    fn begin_call(&self, sim: &Arc<Sim>, op: DevOp) -> Result<(), io::Error> {
        // scheduling point before the device call
        sim.yield_point(match op {
            DevOp::Read => "io.read",
            DevOp::Write => "io.write",
            DevOp::Fsync => "io.fsync",
            DevOp::Enter => "io.uring_enter",
        });
        let mut s = self.state.lock().unwrap();
        if let Some(at) = s.plan.crash_at_call {
            if !s.dead && s.calls >= at && s.capture.is_none() {
                s.capture = Some(CrashCapture {
                    at_call: s.calls,
                    at_event: sim.current_event(),
                    durable: s.durable.clone(),
                    unsynced: s.unsynced.clone(),
                });
                s.dead = true;
            }
        }
        if s.dead {
            return Err(io::Error::from_raw_os_error(libc::EIO));
        }
        Ok(())
    }

    fn record(&self, s: &mut State, sim: &Arc<Sim>, ev: DevEvent) {
        sim.hash_u64(
            ev.event
                ^ ((ev.offset) << 8)
                ^ ((ev.len as u64) << 40)
                ^ (match ev.op {
                    DevOp::Read => 1,
                    DevOp::Write => 2,
                    DevOp::Fsync => 3,
                    DevOp::Enter => 4,
                })
                ^ if ev.ok { 0 } else { 0x8000_0000_0000_0000 },
        );
        if s.log_enabled && s.log.len() < 100_000 {
            s.log.push(ev);
        }
    }
}

fn eio() -> io::Error {
    io::Error::from_raw_os_error(libc::EIO)
}

impl SimDisk {
    /// `write` plus the number of bytes that reached the page cache (a short write applies a prefix).
    fn write_counted(&self, offset: u64, data: &[u8]) -> (io::Result<()>, usize) {
        let Some(sim) = self.sim.upgrade() else { return (Err(eio()), 0) };
        if let Err(e) = self.begin_call(&sim, DevOp::Write) {
            return (Err(e), 0);
        }
        let event = sim.next_event();
        let mut s = self.state.lock().unwrap();
        let mut fault = self.decide_fault(&mut s, &sim, DevOp::Write);
        let call = s.calls;
        let mut cut_at_byte = false;
        if let (None, Some((from, left))) = (fault, s.plan.short_metadata_writes) {
            let block = offset / BLOCK as u64;
            if left > 0 && call >= from && (block == 0 || block == 7) && offset % BLOCK as u64 == 0 {
                s.plan.short_metadata_writes = Some((from, left - 1));
                fault = Some(FaultKind::WriteShort);
                cut_at_byte = true;
            }
        }
        s.calls += 1;
        s.writes += 1;
        let lat = s.write_lat_ns;
        let start = offset as usize;
        let in_bounds = start
            .checked_add(data.len())
            .is_some_and(|end| end <= s.size);
        let mut applied = 0usize;
        let mut apply = |s: &mut State, bytes: &[u8]| {
            if bytes.is_empty() {
                return;
            }
            applied = bytes.len();
            s.cache[start..start + bytes.len()].copy_from_slice(bytes);
            s.unsynced.push(PendingWrite {
                offset,
                data: bytes.to_vec(),
                event,
                limbo: false,
            });
            s.written_blocks.push((
                offset / BLOCK as u64,
                (bytes.len() as u64).div_ceil(BLOCK as u64),
            ));
            s.dirty_file = true;
        };
        let result = if !in_bounds {
            Err(io::Error::new(
                io::ErrorKind::UnexpectedEof,
                "write past the end of the device",
            ))
        } else {
            match fault {
                None => {
                    apply(&mut s, data);
                    Ok(())
                }
                Some(FaultKind::WriteFailBefore) => Err(eio()),
                Some(FaultKind::WriteNoSpace) => Err(io::Error::from_raw_os_error(libc::ENOSPC)),
                Some(FaultKind::WriteFailAfter) => {
                    apply(&mut s, data);
                    Err(eio())
                }
                // a third of the short writes stop at an arbitrary byte (decided from the call number,
                // not from the tape, so that recorded fault tapes keep their meaning)
                Some(FaultKind::WriteShort) if cut_at_byte || (data.len() > 1 && crate::tape::mix(call, data.len() as u64) % 3 == 0) => {
                    // a write call that returns early can stop at any byte, not only between sectors
                    let keep = sim.fault_draw(|t| if t.chance(1, 2) { 1 + t.below(120) as usize } else { 1 + t.below(data.len() as u32 - 1) as usize });
                    apply(&mut s, &data[..keep.min(data.len() - 1)]);
                    Err(io::Error::new(io::ErrorKind::UnexpectedEof, "Partial write"))
                }
                Some(FaultKind::WriteShort) => {
                    let sectors = data.len() / SECTOR;
                    let keep = if sectors <= 1 {
                        0
                    } else {
                        sim.fault_draw(|t| 1 + t.below(sectors as u32 - 1) as usize)
                    };
                    apply(&mut s, &data[..keep * SECTOR]);
                    Err(io::Error::new(io::ErrorKind::UnexpectedEof, "Partial write"))
                }
                Some(_) => unreachable!(),
            }
        };
        if let Some(kind) = fault {
            *s.faults_fired.entry(kind).or_insert(0) += 1;
        }
        if s.monitor_writes && result.is_ok() {
            let first = offset / BLOCK as u64;
            let last = first + (data.len() as u64).div_ceil(BLOCK as u64);
            for (sector, meta) in sim.pinned_extents() {
                let key_len = meta >> 32;
                let value_len = meta & 0xFFFF_FFFF;
                // header size differs by 8 between formats; use the larger (v2/v3) one
                let blocks = (4 + 2 + key_len + 8 + 8 + 8 + value_len).div_ceil(BLOCK as u64);
                if sector < last && first < sector + blocks {
                    sim.violation(
                        "write-over-pinned-extent",
                        format!(
                            "device write to blocks {first}..{last} overlaps extent {sector}+{blocks} that a reader has pinned"
                        ),
                    );
                }
            }
        }
        if result.is_ok() && offset >= 16 * BLOCK as u64 {
            let first = offset / BLOCK as u64;
            let last = first + (data.len() as u64).div_ceil(BLOCK as u64);
            if let Some(guard) = self.write_guard.lock().unwrap().as_ref() {
                if let Some(detail) = guard(first, last) {
                    sim.violation("write-over-live-extent", detail);
                }
            }
        }
        let ev = DevEvent {
            event,
            call,
            thread: sim.current_thread(),
            op: DevOp::Write,
            offset,
            len: data.len(),
            fault,
            ok: result.is_ok(),
        };
        self.record(&mut s, &sim, ev);
        drop(s);
        sim.charge(lat);
        (result, applied)
    }
}

impl SimRing for SimDisk {
    fn capacity(&self) -> usize {
        256
    }

    fn direct_io(&self) -> bool {
        self.state.lock().unwrap().ring_mode == 2
    }

    fn push_allowed(&self, queued: usize) -> bool {
        let Some(sim) = self.sim.upgrade() else { return true };
        let mut s = self.state.lock().unwrap();
        // only as a random fault, and never for the first entry of a batch (an empty queue is never full)
        if queued == 0 || s.plan.random_per_mille == 0 || s.calls >= s.plan.random_until_call || !s.plan.random_kinds.contains(&FaultKind::RingSqFull) {
            return true;
        }
        let rate = s.plan.random_per_mille;
        if sim.fault_draw(|t: &mut Tape| t.chance(rate, 4000)) {
            *s.faults_fired.entry(FaultKind::RingSqFull).or_insert(0) += 1;
            return false;
        }
        true
    }

    fn enter(&self, submitted: Vec<RingSqe>, want: usize, completions: &mut std::collections::VecDeque<RingCqe>) -> io::Result<usize> {
        let sim = self.sim.upgrade().ok_or_else(eio)?;
        // a dead device (after the crash instant) fails the call; nothing it was given is ever executed
        self.begin_call(&sim, DevOp::Enter)?;
        let event = sim.next_event();
        let n = submitted.len();
        let (fault, direct, mut batch) = {
            let mut s = self.state.lock().unwrap();
            let fault = self.decide_fault(&mut s, &sim, DevOp::Enter);
            let call = s.calls;
            s.calls += 1;
            s.enters += 1;
            if let Some(kind) = fault {
                *s.faults_fired.entry(kind).or_insert(0) += 1;
            }
            let ev = DevEvent { event, call, thread: sim.current_thread(), op: DevOp::Enter, offset: want as u64, len: n, fault, ok: fault.is_none() };
            self.record(&mut s, &sim, ev);
            let taken: Vec<Inflight> = submitted.iter().map(|sqe| Inflight { sqe: *sqe, sum: ring_sum(sqe) }).collect();
            s.ring_inflight.extend(taken);
            (fault, s.ring_mode == 2, std::mem::take(&mut s.ring_inflight))
        };
        match fault {
            Some(FaultKind::RingEnterFail) => {
                // which of the queued entries the kernel took is unknown to the caller: a prefix of them
                // stays in flight (the kernel may execute them, or read their memory, at any later time)
                let old = batch.len() - n;
                let keep = old + sim.fault_draw(|t: &mut Tape| t.below(n as u32 + 1) as usize);
                batch.truncate(keep);
                self.state.lock().unwrap().ring_inflight = batch;
                let errno = sim.fault_draw(|t: &mut Tape| *t.pick(&[libc::EBADF, libc::ENOMEM, libc::EAGAIN, libc::EBUSY, libc::EIO]));
                return Err(io::Error::from_raw_os_error(errno));
            }
            Some(FaultKind::RingEintr) => {
                // interrupted while waiting: everything was submitted, a random part has completed
                let done = sim.fault_draw(|t: &mut Tape| t.below(batch.len() as u32 + 1) as usize);
                shuffle(&sim, &mut batch);
                let rest = batch.split_off(done);
                for e in batch {
                    self.execute(&sim, &e, direct, completions);
                }
                self.state.lock().unwrap().ring_inflight.extend(rest);
                return Err(io::Error::from_raw_os_error(libc::EINTR));
            }
            _ => {}
        }
        // completion order (and with it the order in which the writes reach the device) is the kernel's choice
        shuffle(&sim, &mut batch);
        for e in batch {
            self.execute(&sim, &e, direct, completions);
        }
        Ok(n)
    }

    fn closed(&self) {
        let Some(sim) = self.sim.upgrade() else { return };
        let left = std::mem::take(&mut self.state.lock().unwrap().ring_inflight);
        if left.is_empty() {
            return;
        }
        // the kernel still owns these entries. Some are executed now (they reach the page cache like
        // any other write, without telling anybody), the others it will read later (`ring_finish`).
        let dead = self.state.lock().unwrap().dead;
        for e in left {
            let now = !dead && sim.fault_draw(|t: &mut Tape| t.chance(1, 3));
            let mut s = self.state.lock().unwrap();
            s.ring_orphans_total += 1;
            if now && ring_sum(&e.sqe) == e.sum {
                let bytes = unsafe { std::slice::from_raw_parts(e.sqe.ptr, e.sqe.len as usize) }.to_vec();
                let start = e.sqe.offset as usize;
                if start.checked_add(bytes.len()).is_some_and(|end| end <= s.size) {
                    s.cache[start..start + bytes.len()].copy_from_slice(&bytes);
                    let event = sim.next_event();
                    s.unsynced.push(PendingWrite { offset: e.sqe.offset, data: bytes, event, limbo: true });
                    s.dirty_file = true;
                }
            } else {
                s.ring_orphans.push(e);
            }
        }
    }
}

fn shuffle(sim: &Arc<Sim>, v: &mut [Inflight]) {
    for i in (1..v.len()).rev() {
        let j = sim.fault_draw(|t: &mut Tape| t.below(i as u32 + 1) as usize);
        v.swap(i, j);
    }
}

impl SimDisk {
    /// The kernel executes one queued write and posts its completion.
    fn execute(&self, sim: &Arc<Sim>, e: &Inflight, direct: bool, completions: &mut std::collections::VecDeque<RingCqe>) {
        if ring_sum(&e.sqe) != e.sum {
            sim.violation(
                "inflight-buffer-reused",
                format!("the {} bytes queued for offset {} changed between submission and execution", e.sqe.len, e.sqe.offset),
            );
        }
        let len = e.sqe.len as usize;
        let result = if direct && (e.sqe.ptr as usize % SECTOR != 0 || len % SECTOR != 0 || e.sqe.offset % SECTOR as u64 != 0) {
            // O_DIRECT: misaligned memory, length or offset is refused
            -libc::EINVAL
        } else {
            let bytes = unsafe { std::slice::from_raw_parts(e.sqe.ptr, len) }.to_vec();
            self.state.lock().unwrap().ring_writes += 1;
            match self.write_counted(e.sqe.offset, &bytes) {
                (Ok(()), _) => len as i32,
                // a short write completes with the (positive) number of bytes written
                (Err(err), applied) if applied > 0 && applied < len && err.kind() == io::ErrorKind::UnexpectedEof => applied as i32,
                (Err(err), _) => -err.raw_os_error().unwrap_or(libc::EIO),
            }
        };
        completions.push_back(RingCqe { user_data: e.sqe.user_data, result });
    }
}

impl SimDevice for SimDisk {
    fn read(&self, offset: u64, len: usize) -> io::Result<Vec<u8>> {
        let sim = self.sim.upgrade().ok_or_else(eio)?;
        self.begin_call(&sim, DevOp::Read)?;
        let event = sim.next_event();
        let mut s = self.state.lock().unwrap();
        let fault = self.decide_fault(&mut s, &sim, DevOp::Read);
        let call = s.calls;
        s.calls += 1;
        s.reads += 1;
        let lat = s.read_lat_ns;
        let result = if fault.is_some() {
            *s.faults_fired.entry(FaultKind::ReadFail).or_insert(0) += 1;
            Err(eio())
        } else {
            let start = offset as usize;
            match start.checked_add(len) {
                Some(end) if end <= s.size => Ok(s.cache[start..end].to_vec()),
                _ => Err(io::Error::new(
                    io::ErrorKind::UnexpectedEof,
                    "read past the end of the device",
                )),
            }
        };
        let ev = DevEvent {
            event,
            call,
            thread: sim.current_thread(),
            op: DevOp::Read,
            offset,
            len,
            fault,
            ok: result.is_ok(),
        };
        self.record(&mut s, &sim, ev);
        drop(s);
        sim.charge(lat);
        result
    }

    fn ring(&self) -> Option<Arc<dyn SimRing>> {
        if self.state.lock().unwrap().ring_mode == 0 {
            return None;
        }
        self.me.upgrade().map(|me| me as Arc<dyn SimRing>)
    }

    fn write(&self, offset: u64, data: &[u8]) -> io::Result<()> {
        self.write_counted(offset, data).0
    }

    fn fsync(&self) -> io::Result<()> {
        let sim = self.sim.upgrade().ok_or_else(eio)?;
        self.begin_call(&sim, DevOp::Fsync)?;
        let event = sim.next_event();
        let mut s = self.state.lock().unwrap();
        let fault = self.decide_fault(&mut s, &sim, DevOp::Fsync);
        let call = s.calls;
        s.calls += 1;
        s.fsyncs += 1;
        let lat = s.fsync_lat_ns;
        let make_durable = |s: &mut State| {
            let pending: Vec<PendingWrite> = std::mem::take(&mut s.unsynced);
            let mut keep: Vec<PendingWrite> = Vec::new();
            for w in pending {
                if w.limbo {
                    keep.push(w);
                } else {
                    let start = w.offset as usize;
                    s.durable[start..start + w.data.len()].copy_from_slice(&w.data);
                    // A later write that is now durable has definitely replaced whatever an
                    // earlier limbo write left in the same bytes: cut those bytes out of the
                    // "may or may not be on the platter" set.
                    let (a, b) = (w.offset, w.offset + w.data.len() as u64);
                    let mut rest: Vec<PendingWrite> = Vec::new();
                    for l in keep.drain(..) {
                        let (la, lb) = (l.offset, l.offset + l.data.len() as u64);
                        if l.event > w.event || lb <= a || la >= b {
                            rest.push(l);
                            continue;
                        }
                        if la < a {
                            rest.push(PendingWrite {
                                offset: la,
                                data: l.data[..(a - la) as usize].to_vec(),
                                event: l.event,
                                limbo: true,
                            });
                        }
                        if lb > b {
                            rest.push(PendingWrite {
                                offset: b,
                                data: l.data[(b - la) as usize..].to_vec(),
                                event: l.event,
                                limbo: true,
                            });
                        }
                    }
                    keep = rest;
                }
            }
            s.unsynced = keep;
        };
        let result = match fault {
            None => {
                make_durable(&mut s);
                Ok(())
            }
            Some(FaultKind::FsyncFailAfter) => {
                make_durable(&mut s);
                Err(eio())
            }
            Some(FaultKind::FsyncFail) => {
                for w in s.unsynced.iter_mut() {
                    w.limbo = true;
                }
                Err(eio())
            }
            Some(_) => unreachable!(),
        };
        if let Some(kind) = fault {
            *s.faults_fired.entry(kind).or_insert(0) += 1;
        }
        let ev = DevEvent {
            event,
            call,
            thread: sim.current_thread(),
            op: DevOp::Fsync,
            offset: 0,
            len: 0,
            fault,
            ok: result.is_ok(),
        };
        self.record(&mut s, &sim, ev);
        drop(s);
        sim.charge(lat);
        result
    }
}

// ------------------------------------------------------------------------------------
// Crash-image families

#[derive(Clone, Debug, Serialize, Deserialize, PartialEq, Eq)]
pub enum Landing {
    /// write did not reach the platter
    Lost,
    /// whole write landed
    Whole,
    /// only the first k units landed
    Prefix(usize),
    /// only the last k units landed
    Suffix(usize),
    /// every other unit landed, starting with unit `start` (0 or 1)
    Alternate(usize),
}

#[derive(Clone, Debug, Serialize, Deserialize)]
pub struct ImageVariant {
    /// one landing per unsynced write, in issue order
    pub landings: Vec<Landing>,
    /// tearing granularity in bytes (512 or 4096)
    pub unit: usize,
    pub label: String,
}

impl CrashCapture {
    pub fn build(&self, variant: &ImageVariant) -> Vec<u8> {
        let mut image = self.durable.clone();
        for (w, landing) in self.unsynced.iter().zip(variant.landings.iter()) {
            let start = w.offset as usize;
            let unit = variant.unit;
            let units = w.data.len().div_ceil(unit);
            let mut put = |u: usize| {
                let a = u * unit;
                let b = ((u + 1) * unit).min(w.data.len());
                image[start + a..start + b].copy_from_slice(&w.data[a..b]);
            };
            match landing {
                Landing::Lost => {}
                Landing::Whole => (0..units).for_each(&mut put),
                Landing::Prefix(k) => (0..(*k).min(units)).for_each(&mut put),
                Landing::Suffix(k) => (units.saturating_sub(*k)..units).for_each(&mut put),
                Landing::Alternate(s) => (0..units).filter(|u| u % 2 == *s % 2).for_each(&mut put),
            }
        }
        image
    }

    /// Family of images for this crash instant. `exhaustive_limit`: when at most this many
    /// writes are unsynced every subset is generated; `torn`: add tearing variants;
    /// `random`: number of extra random subsets drawn from `tape`.
    pub fn family(
        &self,
        unit: usize,
        exhaustive_limit: usize,
        torn: bool,
        random: usize,
        tape: &mut Tape,
    ) -> Vec<ImageVariant> {
        let n = self.unsynced.len();
        let mut out: Vec<ImageVariant> = Vec::new();
        let mut push = |landings: Vec<Landing>, label: String| {
            if !out.iter().any(|v: &ImageVariant| v.landings == landings) {
                out.push(ImageVariant {
                    landings,
                    unit,
                    label,
                });
            }
        };
        push(vec![Landing::Lost; n], "none-landed".into());
        if n == 0 {
            return out;
        }
        push(vec![Landing::Whole; n], "all-landed".into());
        // with very many unsynced writes (a recovery pass retiring a thousand extents) only a
        // spread of positions gets its own prefix / drop / only / torn variants
        let positions: Vec<usize> = if n <= 48 {
            (0..n).collect()
        } else {
            let mut v: Vec<usize> = (0..4).chain(n - 4..n).collect();
            v.extend((1..24).map(|k| k * n / 24));
            v.sort_unstable();
            v.dedup();
            v
        };
        if n <= exhaustive_limit {
            for mask in 0u32..(1u32 << n) {
                let l = (0..n)
                    .map(|i| {
                        if mask >> i & 1 == 1 {
                            Landing::Whole
                        } else {
                            Landing::Lost
                        }
                    })
                    .collect();
                push(l, format!("subset-{mask:b}"));
            }
        } else {
            for &p in positions.iter().filter(|p| **p >= 1) {
                let l = (0..n)
                    .map(|i| if i < p { Landing::Whole } else { Landing::Lost })
                    .collect();
                push(l, format!("prefix-{p}"));
            }
            for &d in &positions {
                let l = (0..n)
                    .map(|i| if i == d { Landing::Lost } else { Landing::Whole })
                    .collect();
                push(l, format!("drop-{d}"));
                let l = (0..n)
                    .map(|i| if i == d { Landing::Whole } else { Landing::Lost })
                    .collect();
                push(l, format!("only-{d}"));
            }
        }
        if torn {
            for &t in &positions {
                let units = self.unsynced[t].data.len().div_ceil(unit);
                if units < 2 {
                    continue;
                }
                let mut cuts: Vec<Landing> = Vec::new();
                let ks: Vec<usize> = if units <= 9 {
                    (1..units).collect()
                } else {
                    let mut v = vec![1, 2, units / 2, units - 2, units - 1];
                    // block boundaries of a sector-torn multi-block write
                    if unit == SECTOR {
                        let mut b = BLOCK / SECTOR;
                        while b < units && v.len() < 12 {
                            v.push(b);
                            b += BLOCK / SECTOR;
                        }
                    }
                    v.sort_unstable();
                    v.dedup();
                    v
                };
                for k in ks {
                    cuts.push(Landing::Prefix(k));
                    cuts.push(Landing::Suffix(k));
                }
                cuts.push(Landing::Alternate(0));
                cuts.push(Landing::Alternate(1));
                for cut in cuts {
                    // others all landed
                    let l: Vec<Landing> = (0..n)
                        .map(|i| if i == t { cut.clone() } else { Landing::Whole })
                        .collect();
                    push(l, format!("torn-{t}-{cut:?}-rest-landed"));
                    // earlier landed, later lost
                    let l: Vec<Landing> = (0..n)
                        .map(|i| {
                            if i == t {
                                cut.clone()
                            } else if i < t {
                                Landing::Whole
                            } else {
                                Landing::Lost
                            }
                        })
                        .collect();
                    push(l, format!("torn-{t}-{cut:?}-later-lost"));
                }
            }
        }
        for r in 0..random {
            let l: Vec<Landing> = (0..n)
                .map(|i| {
                    let units = self.unsynced[i].data.len().div_ceil(unit);
                    match tape.below(6) {
                        0 | 1 => Landing::Lost,
                        2 | 3 => Landing::Whole,
                        4 if units > 1 => Landing::Prefix(1 + tape.below(units as u32 - 1) as usize),
                        5 if units > 1 => Landing::Suffix(1 + tape.below(units as u32 - 1) as usize),
                        _ => Landing::Whole,
                    }
                })
                .collect();
            push(l, format!("random-{r}"));
        }
        out
    }
}
