//! Independent reader/writer of the documented on-disk layout (v1/v2/v3). Shares no code
//! with the crate under test: written from the README, the constants and the layout comments.
//!
//! block 0 / block 7   metadata (primary / backup), 136 bytes used
//! blocks 1..=3, 4..=6 allocation journal slots
//! block 16..          data area: records, retirement markers, free space

use std::collections::BTreeMap;

pub const BLOCK: usize = 4096;
pub const DATA_START: u64 = 16;
pub const META_PRIMARY: u64 = 0;
pub const META_BACKUP: u64 = 7;
pub const JOURNAL_START: u64 = 1;
pub const JOURNAL_SLOT_BLOCKS: u64 = 3;
pub const JOURNAL_SLOTS: usize = 2;
pub const RECORD_MARKER: u16 = 0xABCD;
pub const DELETED_TAG: &[u8; 8] = b"\0DELETED";
pub const MAX_KEY: usize = 100 * 1024;
pub const MAX_VALUE: usize = 4 * 1024 * 1024;

// ---------------------------------------------------------------- CRC32C (Castagnoli), bitwise

pub fn crc32c(seed: u32, data: &[u8]) -> u32 {
    let mut crc = !seed;
    for &b in data {
        crc ^= b as u32;
        for _ in 0..8 {
            let mask = (crc & 1).wrapping_neg();
            crc = (crc >> 1) ^ (0x82F6_3B78 & mask);
        }
    }
    !crc
}

// table-driven version for speed (same polynomial); verified against the bitwise one in tests
fn table() -> &'static [u32; 256] {
    static TABLE: std::sync::OnceLock<[u32; 256]> = std::sync::OnceLock::new();
    TABLE.get_or_init(|| {
        let mut t = [0u32; 256];
        for (i, e) in t.iter_mut().enumerate() {
            let mut c = i as u32;
            for _ in 0..8 {
                c = if c & 1 != 0 { (c >> 1) ^ 0x82F6_3B78 } else { c >> 1 };
            }
            *e = c;
        }
        t
    })
}

pub fn crc32c_fast(seed: u32, data: &[u8]) -> u32 {
    let t = table();
    let mut crc = !seed;
    for &b in data {
        crc = t[((crc ^ b as u32) & 0xFF) as usize] ^ (crc >> 8);
    }
    !crc
}

fn fold16(crc: u32) -> u16 {
    match ((crc >> 16) ^ (crc & 0xFFFF)) as u16 {
        0 => 1,
        t => t,
    }
}

fn le16(b: &[u8], at: usize) -> u16 {
    u16::from_le_bytes([b[at], b[at + 1]])
}
fn le32(b: &[u8], at: usize) -> u32 {
    u32::from_le_bytes(b[at..at + 4].try_into().unwrap())
}
fn le64(b: &[u8], at: usize) -> u64 {
    u64::from_le_bytes(b[at..at + 8].try_into().unwrap())
}

// ---------------------------------------------------------------- metadata

#[derive(Clone, Debug, PartialEq, Eq)]
pub struct Meta {
    pub version: u32,
    pub total_records: u64,
    pub total_size: u64,
    pub device_size: u64,
    pub block_size: u32,
    pub fragmentation: u32,
    pub creation_time: u64,
    pub last_update_time: u64,
    pub has_checksum: bool,
    pub generation: u64,
}

fn meta_checksum(b: &[u8]) -> u32 {
    // signature, version, total_records, total_size, device_size, block_size, fragmentation,
    // creation_time, last_update_time, reserved[12..]
    let mut c = crc32c_fast(0, &b[0..8]);
    c = crc32c_fast(c, &b[8..12]);
    c = crc32c_fast(c, &b[16..24]);
    c = crc32c_fast(c, &b[24..32]);
    c = crc32c_fast(c, &b[32..40]);
    c = crc32c_fast(c, &b[40..44]);
    c = crc32c_fast(c, &b[44..48]);
    c = crc32c_fast(c, &b[48..56]);
    c = crc32c_fast(c, &b[56..64]);
    crc32c_fast(c, &b[64 + 12..132])
}

pub fn decode_meta(b: &[u8]) -> Option<Meta> {
    if b.len() < 136 || &b[0..8] != b"FEOX_SIG" {
        return None;
    }
    let version = le32(b, 8);
    let block_size = le32(b, 40);
    let device_size = le64(b, 32);
    if block_size != BLOCK as u32 || version == 0 || version > 3 {
        return None;
    }
    if device_size == 0 || device_size > (1u64 << 40) {
        return None;
    }
    let has_checksum = &b[64..68] == b"FM3C";
    if version >= 3 && !has_checksum {
        return None;
    }
    if has_checksum {
        let checksum = le32(b, 68);
        let complement = le32(b, 72);
        if complement != !checksum || checksum != meta_checksum(b) {
            return None;
        }
    }
    Some(Meta {
        version,
        total_records: le64(b, 16),
        total_size: le64(b, 24),
        device_size,
        block_size,
        fragmentation: le32(b, 44),
        creation_time: le64(b, 48),
        last_update_time: le64(b, 56),
        has_checksum,
        generation: if has_checksum { le64(b, 76) } else { 0 },
    })
}

pub fn encode_meta(m: &Meta) -> Vec<u8> {
    let mut b = vec![0u8; BLOCK];
    b[0..8].copy_from_slice(b"FEOX_SIG");
    b[8..12].copy_from_slice(&m.version.to_le_bytes());
    b[16..24].copy_from_slice(&m.total_records.to_le_bytes());
    b[24..32].copy_from_slice(&m.total_size.to_le_bytes());
    b[32..40].copy_from_slice(&m.device_size.to_le_bytes());
    b[40..44].copy_from_slice(&m.block_size.to_le_bytes());
    b[44..48].copy_from_slice(&m.fragmentation.to_le_bytes());
    b[48..56].copy_from_slice(&m.creation_time.to_le_bytes());
    b[56..64].copy_from_slice(&m.last_update_time.to_le_bytes());
    if m.has_checksum {
        b[64..68].copy_from_slice(b"FM3C");
        b[76..84].copy_from_slice(&m.generation.to_le_bytes());
        let c = meta_checksum(&b);
        b[68..72].copy_from_slice(&c.to_le_bytes());
        b[72..76].copy_from_slice(&(!c).to_le_bytes());
    }
    b
}

/// Newest valid metadata copy (backup wins only with a strictly greater generation).
pub fn read_meta(image: &[u8]) -> Option<(Meta, &'static str)> {
    if image.len() < 8 * BLOCK {
        return None;
    }
    let p = decode_meta(&image[0..BLOCK]);
    let bk = decode_meta(&image[7 * BLOCK..8 * BLOCK]);
    match (p, bk) {
        (Some(p), Some(b)) if b.generation > p.generation => Some((b, "backup")),
        (Some(p), _) => Some((p, "primary")),
        (None, Some(b)) => Some((b, "backup")),
        (None, None) => None,
    }
}

// ---------------------------------------------------------------- allocation journal

#[derive(Clone, Debug, PartialEq, Eq)]
pub struct Journal {
    pub generation: u64,
    pub slot: usize,
    pub active: bool,
    pub extents: Vec<(u64, u64)>,
}

fn journal_checksum(d: &[u8]) -> u32 {
    let mut c = crc32c_fast(0, &d[..12]);
    c = crc32c_fast(c, &[0; 4]);
    c = crc32c_fast(c, &d[16..32]);
    c = crc32c_fast(c, &[0; 4]);
    crc32c_fast(c, &d[36..])
}

fn decode_journal_slot(d: &[u8], total_blocks: u64, slot: usize) -> Option<Journal> {
    if &d[..8] != b"\0FEOXAJ1" {
        return None;
    }
    let version = le32(d, 8);
    if version != 1 && version != 2 {
        return None;
    }
    let generation = le64(d, 16);
    let state = le32(d, 24);
    let count = le32(d, 28) as usize;
    if generation == 0 || count > 1024 || state > 1 {
        return None;
    }
    if (state == 0 && count != 0) || (state == 1 && count == 0) {
        return None;
    }
    let len = if version == 1 {
        d.len()
    } else {
        (40 + count * 8).div_ceil(BLOCK) * BLOCK
    };
    let checksum = le32(d, 12);
    let complement = le32(d, 32);
    if complement != !checksum || journal_checksum(&d[..len]) != checksum {
        return None;
    }
    let mut extents = Vec::new();
    for i in 0..count {
        let at = 40 + i * 8;
        let sector = le32(d, at) as u64;
        let sectors = le32(d, at + 4) as u64;
        if sector < DATA_START || sectors == 0 || sector + sectors > total_blocks {
            return None;
        }
        extents.push((sector, sectors));
    }
    let mut sorted = extents.clone();
    sorted.sort_unstable();
    for w in sorted.windows(2) {
        if w[0].0 + w[0].1 > w[1].0 {
            return None;
        }
    }
    Some(Journal {
        generation,
        slot,
        active: state == 1,
        extents,
    })
}

/// Err(reason) when neither slot is usable.
pub fn read_journal(image: &[u8]) -> Result<Journal, String> {
    let total_blocks = (image.len() / BLOCK) as u64;
    let mut valid: Vec<Journal> = Vec::new();
    let mut missing = Vec::new();
    for slot in 0..JOURNAL_SLOTS {
        let start = (JOURNAL_START as usize + slot * JOURNAL_SLOT_BLOCKS as usize) * BLOCK;
        let d = &image[start..start + JOURNAL_SLOT_BLOCKS as usize * BLOCK];
        if d.iter().all(|b| *b == 0) {
            missing.push(slot);
        } else if let Some(j) = decode_journal_slot(d, total_blocks, slot) {
            valid.push(j);
        }
    }
    if let Some(best) = valid.into_iter().max_by_key(|j| j.generation) {
        return Ok(best);
    }
    if let Some(slot) = missing.last() {
        return Ok(Journal {
            generation: 0,
            slot: *slot,
            active: false,
            extents: Vec::new(),
        });
    }
    Err("both journal slots are damaged".into())
}

pub fn encode_journal(generation: u64, extents: &[(u64, u64)]) -> Vec<u8> {
    let count = extents.len();
    let len = (40 + count * 8).div_ceil(BLOCK) * BLOCK;
    let mut d = vec![0u8; len];
    d[..8].copy_from_slice(b"\0FEOXAJ1");
    d[8..12].copy_from_slice(&2u32.to_le_bytes());
    d[16..24].copy_from_slice(&generation.to_le_bytes());
    d[24..28].copy_from_slice(&(if count > 0 { 1u32 } else { 0u32 }).to_le_bytes());
    d[28..32].copy_from_slice(&(count as u32).to_le_bytes());
    for (i, (s, n)) in extents.iter().enumerate() {
        let at = 40 + i * 8;
        d[at..at + 4].copy_from_slice(&(*s as u32).to_le_bytes());
        d[at + 4..at + 8].copy_from_slice(&(*n as u32).to_le_bytes());
    }
    let c = journal_checksum(&d);
    d[12..16].copy_from_slice(&c.to_le_bytes());
    d[32..36].copy_from_slice(&(!c).to_le_bytes());
    d
}

// ---------------------------------------------------------------- records and markers

pub fn header_len(version: u32, key_len: usize) -> usize {
    4 + 2 + key_len + 8 + 8 + if version >= 2 { 8 } else { 0 }
}

pub fn extent_blocks(version: u32, key_len: usize, value_len: usize) -> u64 {
    (header_len(version, key_len) + value_len).div_ceil(BLOCK) as u64
}

/// Token binding a record to its landing block and its whole padded extent (v3).
pub fn record_token(sector: u64, extent: &[u8]) -> u16 {
    let mut c = crc32c_fast(0, &sector.to_le_bytes());
    c = crc32c_fast(c, &extent[..2]);
    c = crc32c_fast(c, &[0, 0]);
    c = crc32c_fast(c, &extent[4..]);
    fold16(c)
}

pub fn marker_token(sector: u64, marker: &[u8]) -> u16 {
    let mut protected = [0u8; 17];
    protected[..16].copy_from_slice(&marker[..16]);
    protected[16] = marker[18];
    fold16(crc32c_fast(crc32c_fast(0, &sector.to_le_bytes()), &protected))
}

pub fn encode_record(
    version: u32,
    sector: u64,
    key: &[u8],
    value: &[u8],
    timestamp: u64,
    expiry: u64,
) -> Vec<u8> {
    let blocks = extent_blocks(version, key.len(), value.len()) as usize;
    let mut d = Vec::with_capacity(blocks * BLOCK);
    d.extend_from_slice(&RECORD_MARKER.to_le_bytes());
    d.extend_from_slice(&0u16.to_le_bytes());
    d.extend_from_slice(&(key.len() as u16).to_le_bytes());
    d.extend_from_slice(key);
    d.extend_from_slice(&(value.len() as u64).to_le_bytes());
    d.extend_from_slice(&timestamp.to_le_bytes());
    if version >= 2 {
        d.extend_from_slice(&expiry.to_le_bytes());
    }
    d.extend_from_slice(value);
    d.resize(blocks * BLOCK, 0);
    if version >= 3 {
        let t = record_token(sector, &d);
        d[2..4].copy_from_slice(&t.to_le_bytes());
    }
    d
}

/// New-style (19 byte) retirement markers over `blocks` blocks starting at `sector`.
pub fn encode_retirement(sector: u64, blocks: u64, complete: bool) -> Vec<u8> {
    let mut d = vec![0u8; blocks as usize * BLOCK];
    for i in 0..blocks {
        let at = i as usize * BLOCK;
        d[at..at + 8].copy_from_slice(DELETED_TAG);
        d[at + 8..at + 16].copy_from_slice(&(blocks - i).to_le_bytes());
        d[at + 18] = complete as u8;
        let t = marker_token(sector + i, &d[at..at + 19]);
        d[at + 16..at + 18].copy_from_slice(&t.to_le_bytes());
    }
    d
}

/// One retirement-marker block claiming `remaining` blocks from `sector` on.
pub fn encode_retirement_block(sector: u64, remaining: u64, complete: bool) -> Vec<u8> {
    let mut d = vec![0u8; BLOCK];
    d[..8].copy_from_slice(DELETED_TAG);
    d[8..16].copy_from_slice(&remaining.to_le_bytes());
    d[18] = complete as u8;
    let t = marker_token(sector, &d[..19]);
    d[16..18].copy_from_slice(&t.to_le_bytes());
    d
}

/// Legacy (v1/v2 releases) deletion marker: tag followed by zeros.
pub fn encode_legacy_marker() -> Vec<u8> {
    let mut d = vec![0u8; BLOCK];
    d[..8].copy_from_slice(DELETED_TAG);
    d
}

#[derive(Clone, Debug, PartialEq, Eq)]
pub struct LiveRecord {
    pub value: Vec<u8>,
    pub timestamp: u64,
    pub expiry: u64,
    pub sector: u64,
    pub blocks: u64,
}

#[derive(Clone, Debug, Default)]
pub struct Decoded {
    pub version: u32,
    pub meta: Option<Meta>,
    pub meta_source: &'static str,
    pub journal: Option<Journal>,
    pub live: BTreeMap<Vec<u8>, LiveRecord>,
    /// generations superseded by a newer timestamp for the same key
    pub stale: Vec<(Vec<u8>, u64, u64, u64)>,
    pub retired_extents: Vec<(u64, u64, bool)>,
    pub ambiguous_markers: u64,
    /// blocks of the data area that belong to no live record
    pub free_blocks: u64,
}

#[derive(Clone, Copy, Debug, PartialEq, Eq)]
pub struct DecodeOptions {
    /// skip ambiguous legacy markers instead of rejecting
    pub allow_ambiguous: bool,
    /// treat extents listed in an active journal as not yet written (what recovery does by retiring them)
    pub apply_journal: bool,
}

impl Default for DecodeOptions {
    fn default() -> Self {
        DecodeOptions {
            allow_ambiguous: false,
            apply_journal: true,
        }
    }
}

/// Decode a whole image. Err(reason) = an independent reader of the documented layout rejects it.
pub fn decode_image(image: &[u8], opt: DecodeOptions) -> Result<Decoded, String> {
    if image.len() % BLOCK != 0 || image.len() <= DATA_START as usize * BLOCK {
        return Err("invalid device size".into());
    }
    let total = (image.len() / BLOCK) as u64;
    let (meta, meta_source) = read_meta(image).ok_or("no valid metadata copy")?;
    let version = meta.version;
    let journal = read_journal(image)?;
    let mut skip: Vec<(u64, u64)> = if opt.apply_journal && journal.active {
        journal.extents.clone()
    } else {
        Vec::new()
    };
    skip.sort_unstable();

    let mut out = Decoded {
        version,
        meta: Some(meta),
        meta_source,
        journal: Some(journal),
        ..Default::default()
    };
    let block = |s: u64| &image[s as usize * BLOCK..(s as usize + 1) * BLOCK];
    let mut sector = DATA_START;
    'scan: while sector < total {
        for (start, n) in &skip {
            if sector >= *start && sector < start + n {
                out.retired_extents.push((*start, *n, false));
                sector = start + n;
                continue 'scan;
            }
        }
        let d = block(sector);
        if &d[..8] == DELETED_TAG {
            if version < 3 && d[8..].iter().all(|b| *b == 0) {
                if !opt.allow_ambiguous {
                    return Err(format!("ambiguous legacy deletion marker at block {sector}"));
                }
                out.ambiguous_markers += 1;
                sector += 1;
                continue;
            }
            let expected = marker_token(sector, d);
            if le16(d, 16) != expected {
                return Err(format!("retirement marker token mismatch at block {sector}"));
            }
            let remaining = le64(d, 8);
            if remaining == 0 || sector.checked_add(remaining).is_none_or(|e| e > total) {
                return Err(format!("retirement marker extent out of bounds at block {sector}"));
            }
            out.retired_extents.push((sector, remaining, d[18] == 1));
            sector += remaining;
            continue;
        }
        if le16(d, 0) != RECORD_MARKER {
            sector += 1;
            continue;
        }
        let strict = version >= 3;
        macro_rules! bad {
            ($why:expr) => {{
                if strict {
                    return Err(format!("{} at block {}", $why, sector));
                }
                sector += 1;
                continue;
            }};
        }
        let key_len = le16(d, 4) as usize;
        let hlen = header_len(version, key_len);
        if key_len == 0 || hlen > BLOCK {
            bad!("record header does not fit its head block");
        }
        let token = le16(d, 2);
        if (version < 3 && token != 0) || (version >= 3 && token == 0) {
            return Err(format!("record token inconsistent with format version at block {sector}"));
        }
        let key = d[6..6 + key_len].to_vec();
        let value_len = le64(d, 6 + key_len) as usize;
        let timestamp = le64(d, 6 + key_len + 8);
        let expiry = if version >= 2 {
            le64(d, 6 + key_len + 16)
        } else {
            0
        };
        if value_len == 0 || value_len > MAX_VALUE {
            bad!("record value length out of range");
        }
        let blocks = extent_blocks(version, key_len, value_len);
        if sector + blocks > total {
            bad!("record extent leaves the device");
        }
        let extent = &image[sector as usize * BLOCK..(sector + blocks) as usize * BLOCK];
        if version >= 3 && record_token(sector, extent) != token {
            return Err(format!("record token mismatch at block {sector}"));
        }
        let value = extent[hlen..hlen + value_len].to_vec();
        let rec = LiveRecord {
            value,
            timestamp,
            expiry,
            sector,
            blocks,
        };
        match out.live.get(&key) {
            Some(existing) if existing.timestamp > timestamp => {
                out.stale.push((key, timestamp, sector, blocks));
            }
            Some(existing) => {
                out.stale
                    .push((key.clone(), existing.timestamp, existing.sector, existing.blocks));
                out.live.insert(key, rec);
            }
            None => {
                out.live.insert(key, rec);
            }
        }
        sector += blocks;
    }
    let used: u64 = out.live.values().map(|r| r.blocks).sum();
    out.free_blocks = total - DATA_START - used;
    Ok(out)
}

/// Documented layout of a retired extent: *every* block starts with a marker that carries the
/// number of blocks from there to the end of the extent (so that a scan can resume at any block
/// once the front of the hole has been reused). Walks every complete retired extent the decoder
/// found: block i must hold a valid marker with `remaining - i`.
pub fn verify_marker_chains(image: &[u8], decoded: &Decoded) -> Result<usize, String> {
    let mut checked = 0;
    for &(start, remaining, complete) in &decoded.retired_extents {
        if !complete {
            continue;
        }
        for i in 1..remaining {
            let sector = start + i;
            let d = &image[sector as usize * BLOCK..(sector as usize + 1) * BLOCK];
            if &d[..8] != DELETED_TAG {
                return Err(format!("retired extent {start}+{remaining}: block {sector} (offset {i}) carries no retirement marker"));
            }
            if le16(d, 16) != marker_token(sector, d) {
                return Err(format!("retired extent {start}+{remaining}: marker token mismatch at block {sector} (offset {i})"));
            }
            if le64(d, 8) != remaining - i {
                return Err(format!("retired extent {start}+{remaining}: block {sector} (offset {i}) says {} blocks remain, expected {}", le64(d, 8), remaining - i));
            }
        }
        checked += 1;
    }
    Ok(checked)
}

// ---------------------------------------------------------------- image synthesis

/// Empty device image of the given format version as the corresponding release left it
/// after initialisation (metadata only, journal area zero, data area zero).
pub fn empty_image(version: u32, size: usize, now_secs: u64) -> Vec<u8> {
    let mut image = vec![0u8; size];
    let meta = Meta {
        version,
        total_records: 0,
        total_size: 0,
        device_size: size as u64,
        block_size: BLOCK as u32,
        fragmentation: 0,
        creation_time: now_secs,
        last_update_time: now_secs,
        has_checksum: version >= 3,
        generation: if version >= 3 { 1 } else { 0 },
    };
    let b = encode_meta(&meta);
    image[..BLOCK].copy_from_slice(&b);
    if version >= 3 {
        image[7 * BLOCK..8 * BLOCK].copy_from_slice(&b);
    }
    image
}

pub fn put_record(
    image: &mut [u8],
    version: u32,
    sector: u64,
    key: &[u8],
    value: &[u8],
    timestamp: u64,
    expiry: u64,
) -> u64 {
    let d = encode_record(version, sector, key, value, timestamp, expiry);
    let at = sector as usize * BLOCK;
    image[at..at + d.len()].copy_from_slice(&d);
    (d.len() / BLOCK) as u64
}

#[cfg(test)]
mod tests {
    use super::*;
    #[test]
    fn crc_variants_agree() {
        let data: Vec<u8> = (0..1000u32).map(|i| (i * 7 + 3) as u8).collect();
        assert_eq!(crc32c(0, &data), crc32c_fast(0, &data));
        assert_eq!(crc32c(0, b"123456789"), 0xE306_9283);
        assert_eq!(
            crc32c_fast(crc32c_fast(0, &data[..100]), &data[100..]),
            crc32c_fast(0, &data)
        );
    }
}
