//! Fine-grained tier: the scenarios of /verif/fine executed by Miri, whose seeded scheduler
//! preempts threads at basic-block granularity (the baton scheduler of this crate switches only
//! at seams). One Miri seed = one scenario and one exactly repeatable interleaving. This module
//! is the parent side: it runs the seeds in parallel interpreter processes, confirms and
//! minimises failures, writes replay files and reports counters for the evidence file.

use std::collections::BTreeMap;
use std::process::{Command, Stdio};
use std::time::{Duration, Instant};

use serde::{Deserialize, Serialize};
use serde_json::json;

use crate::tape;

pub const MIRI_FLAGS: &str = "-Zmiri-permissive-provenance -Zmiri-disable-stacked-borrows -Zmiri-disable-data-race-detector -Zmiri-ignore-leaks";
const RUN_TIMEOUT: Duration = Duration::from_secs(300);

/// (family, runs in the quick tier, runs in the thorough tier)
pub fn plan(property: &str) -> Vec<(&'static str, u64, u64)> {
    match property {
        "C07" => vec![("rmw", 72, 2200), ("crdel", 48, 1500)],
        "C11" => vec![("ttl", 80, 2000)],
        "C13" => vec![("limit", 64, 1500), ("ttl", 32, 800)],
        "C14" => vec![("range", 72, 2000), ("crdel", 32, 1000)],
        "C20" => vec![("range", 64, 1500), ("rmw", 48, 1200), ("ttl", 48, 1200), ("limit", 24, 600), ("crdel", 24, 600)],
        _ => vec![],
    }
}

#[derive(Clone, Debug, Serialize, Deserialize)]
pub struct FineReplay {
    pub engine: String, // "fine"
    pub property: String,
    pub family: String,
    pub scenario_seed: u64,
    pub mask: u64,
    pub miri_seed: u64,
    pub miri_flags: String,
    /// rounds of the limit family (a run is several independent rounds in one store)
    #[serde(default = "default_rounds")]
    pub rounds: u64,
    pub rule: String,
    pub detail: String,
}

fn default_rounds() -> u64 {
    2
}

#[derive(Clone, Debug, Default)]
pub struct RunResult {
    pub ok: bool,
    pub rule: String,
    pub detail: String,
    pub counters: BTreeMap<String, u64>,
    pub yields: u64,
    pub trace: u64,
    pub harness_error: Option<String>,
}

/// Swarm knob: how often the interpreter preempts at the end of a basic block, a function of the
/// Miri seed (so a replay file needs nothing else). Low rates let one thread run through a whole
/// call while another sits inside a window; high rates interleave almost block by block.
pub fn preemption_rate(miri_seed: u64) -> &'static str {
    ["0.005", "0.01", "0.02", "0.05", "0.1", "0.2"][(tape::mix(miri_seed, 0x9a7e) % 6) as usize]
}

fn fine_dir(root: &str) -> String {
    format!("{root}/fine")
}

fn command(root: &str, family: &str, scenario_seed: u64, mask: u64, miri_seed: u64, rounds: u64) -> Command {
    // `timeout` bounds a run that the interpreter cannot finish (exit status 124 = inconclusive)
    let mut c = Command::new("timeout");
    c.current_dir(fine_dir(root))
        .args(["-k", "5", &RUN_TIMEOUT.as_secs().to_string(), "cargo", "+nightly", "miri", "run", "--offline", "-q", "--", family, &scenario_seed.to_string(), &mask.to_string(), "0", &rounds.to_string()])
        .env("MIRIFLAGS", format!("{MIRI_FLAGS} -Zmiri-preemption-rate={} -Zmiri-seed={miri_seed}", preemption_rate(miri_seed)))
        .env("CARGO_NET_OFFLINE", "true")
        .env_remove("RUSTFLAGS");
    c
}

fn classify(code: Option<i32>, stdout: &str, stderr: &str) -> RunResult {
    let mut r = RunResult::default();
    if code == Some(124) || code == Some(137) {
        r.ok = true;
        r.rule = "inconclusive-timeout".into();
        return r;
    }
    if let Some(line) = stdout.lines().find_map(|l| l.strip_prefix("FINE ")) {
        if let Ok(v) = serde_json::from_str::<serde_json::Value>(line) {
            r.ok = v["ok"].as_bool().unwrap_or(false);
            r.rule = v["rule"].as_str().unwrap_or("").to_string();
            r.detail = v["detail"].as_str().unwrap_or("").to_string();
            r.yields = v["yields"].as_u64().unwrap_or(0);
            r.trace = v["trace"].as_u64().unwrap_or(0);
            if let Some(m) = v["counters"].as_object() {
                for (k, c) in m {
                    r.counters.insert(k.clone(), c.as_u64().unwrap_or(0));
                }
            }
            if r.ok && code == Some(0) {
                return r;
            }
            if !r.ok && !r.rule.is_empty() {
                return r;
            }
        }
    }
    // no verdict line: the interpreter stopped the program
    r.ok = false;
    let first_error = stderr.lines().find(|l| l.starts_with("error")).unwrap_or("").to_string();
    let context: String = stderr
        .lines()
        .skip_while(|l| !l.starts_with("error"))
        .filter(|l| !l.trim().is_empty())
        .take(24)
        .collect::<Vec<_>>()
        .join("\n");
    if first_error.contains("Undefined Behavior") {
        r.rule = "miri-undefined-behaviour".into();
        r.detail = context;
    } else if first_error.contains("deadlock") {
        r.rule = "deadlock".into();
        r.detail = context;
    } else if stderr.contains("panicked at") {
        r.rule = "panic".into();
        r.detail = stderr.lines().filter(|l| l.contains("panicked at") || l.starts_with("  ")).take(8).collect::<Vec<_>>().join("\n");
        if r.detail.contains("waited 2 000 000 turns") {
            r.rule = "liveness".into();
        }
    } else if first_error.contains("unsupported operation") || first_error.contains("could not compile") || first_error.starts_with("error[") {
        r.harness_error = Some(format!("fine tier: {first_error}\n{context}"));
    } else {
        r.harness_error = Some(format!("fine tier: interpreter exited with {code:?} and no verdict: {first_error}\n{}", stderr.lines().rev().take(6).collect::<Vec<_>>().join(" | ")));
    }
    r
}

pub fn run_one(root: &str, family: &str, scenario_seed: u64, mask: u64, miri_seed: u64, rounds: u64) -> RunResult {
    let child = command(root, family, scenario_seed, mask, miri_seed, rounds).stdout(Stdio::piped()).stderr(Stdio::piped()).spawn();
    let Ok(child) = child else {
        return RunResult { harness_error: Some("fine tier: cannot start cargo +nightly miri".into()), ..Default::default() };
    };
    finish(child)
}

fn finish(child: std::process::Child) -> RunResult {
    match child.wait_with_output() {
        Ok(out) => classify(out.status.code(), &String::from_utf8_lossy(&out.stdout), &String::from_utf8_lossy(&out.stderr)),
        Err(e) => RunResult { harness_error: Some(format!("fine tier: {e}")), ..Default::default() },
    }
}

pub struct StageOutcome {
    pub info: serde_json::Value,
    pub runs: u64,
    /// (rule, replay path, detail)
    pub violations: Vec<(String, String, String)>,
    pub harness_errors: Vec<String>,
}

/// Build once (the first interpreter run compiles the repository for Miri), then run the seeds.
pub fn run_stage(root: &str, property: &str, tier: &str, top: u64, workers: usize, replay_dir: &str, budget: Duration) -> Option<StageOutcome> {
    let families = plan(property);
    if families.is_empty() {
        return None;
    }
    let started = Instant::now();
    let mut harness_errors = Vec::new();
    let mut violations: Vec<(String, String, String)> = Vec::new();
    // warm-up = build; its verdict is not counted
    let rounds: u64 = if tier == "quick" { 2 } else { 6 };
    let warm = run_one(root, families[0].0, 0, 0, 0, 1);
    if let Some(e) = &warm.harness_error {
        return Some(StageOutcome { info: json!({"error": e}), runs: 0, violations, harness_errors: vec![e.clone()] });
    }
    let build_s = started.elapsed().as_secs_f64();
    let scale: f64 = std::env::var("VERIF_SCALE").ok().and_then(|s| s.parse().ok()).unwrap_or(1.0);
    let mut fam_info = serde_json::Map::new();
    let mut total_runs = 0u64;
    let n_fam = families.len() as u32;
    for (fi, (family, q, t)) in families.iter().enumerate() {
        let planned = (((if tier == "quick" { *q } else { *t }) as f64) * scale).max(1.0) as u64;
        let left = budget.saturating_sub(started.elapsed());
        let deadline = Instant::now() + left / (n_fam - fi as u32);
        let t0 = Instant::now();
        let next = std::sync::atomic::AtomicU64::new(0);
        let results: std::sync::Mutex<Vec<(u64, RunResult)>> = std::sync::Mutex::new(Vec::new());
        std::thread::scope(|scope| {
            for _ in 0..workers.max(1) {
                scope.spawn(|| loop {
                    let i = next.fetch_add(1, std::sync::atomic::Ordering::SeqCst);
                    if i >= planned || Instant::now() >= deadline {
                        break;
                    }
                    let seed = tape::run_seed(top, &format!("fine:{family}"), i) >> 16;
                    let r = run_one(root, family, seed, 0, seed, rounds);
                    results.lock().unwrap().push((seed, r));
                });
            }
        });
        let mut results = results.into_inner().unwrap();
        results.sort_by_key(|(seed, _)| *seed);
        let mut counters: BTreeMap<String, u64> = BTreeMap::new();
        let mut traces = std::collections::BTreeSet::new();
        let mut yields = 0u64;
        let mut inconclusive = 0u64;
        let mut by_rule: BTreeMap<String, Vec<(u64, String)>> = BTreeMap::new();
        for (seed, r) in &results {
            if let Some(e) = &r.harness_error {
                harness_errors.push(format!("{family} seed {seed}: {e}"));
                continue;
            }
            if r.rule == "inconclusive-timeout" {
                inconclusive += 1;
                continue;
            }
            for (k, v) in &r.counters {
                *counters.entry(k.clone()).or_insert(0) += v;
            }
            traces.insert(r.trace);
            yields += r.yields;
            if !r.ok {
                by_rule.entry(r.rule.clone()).or_default().push((*seed, r.detail.clone()));
            }
        }
        for (rule, list) in &by_rule {
            let (seed, _) = &list[0];
            match confirm_and_minimise(root, property, family, *seed, rule, replay_dir, rounds) {
                Ok((path, detail)) => violations.push((rule.clone(), path, detail)),
                Err(e) => harness_errors.push(e),
            }
        }
        total_runs += results.len() as u64;
        fam_info.insert(
            family.to_string(),
            json!({
                "planned_runs": planned, "completed_runs": results.len(), "wall_s": t0.elapsed().as_secs_f64(),
                "violating_runs": by_rule.values().map(|l| l.len()).sum::<usize>(),
                "inconclusive_timeouts": inconclusive,
                "distinct_interleavings": traces.len(),
                "seams_passed": yields,
                "counters": counters,
            }),
        );
    }
    let info = json!({
        "what": "the scenarios of /verif/fine (memory-only stores; real FeoxStore code, real scc/crossbeam) interpreted by Miri: its seeded scheduler preempts at basic-block granularity (rate 0.005-0.2 per block, drawn per run), so windows without a seam are explored; Miri also reports undefined behaviour (use after free, out-of-bounds, invalid values; aliasing model and data-race detector are off because scc and crossbeam-epoch trip them in dependency code) and deadlocks",
        "miri_flags": MIRI_FLAGS,
        "distinct_interleavings_measure": "distinct order-sensitive hashes of (thread, seam) over every seam and clock reading of a run",
        "build_s": build_s,
        "runs": total_runs,
        "families": fam_info,
    });
    Some(StageOutcome { info, runs: total_runs, violations, harness_errors })
}

/// Re-execute in a fresh interpreter (must fail the same way), then drop operations one by one
/// while some interleaving of the smaller scenario still breaks the same rule.
fn confirm_and_minimise(root: &str, property: &str, family: &str, seed: u64, rule: &str, replay_dir: &str, rounds: u64) -> Result<(String, String), String> {
    let again = run_one(root, family, seed, 0, seed, rounds);
    if again.ok || again.rule != rule {
        return Err(format!("fine tier: violation {rule} of {family} seed {seed} did not reproduce in a fresh interpreter (got {:?})", again.rule));
    }
    let mut best = (0u64, seed, again.detail.clone());
    let started = Instant::now();
    'bits: for bit in 0..16u32 {
        if started.elapsed() > Duration::from_secs(90) {
            break;
        }
        let mask = best.0 | (1u64 << bit);
        // the schedule of a changed program is a different one: look at a handful of interleavings
        let children: Vec<(u64, std::process::Child)> = (0..8u64)
            .filter_map(|i| {
                let ms = if i == 0 { best.1 } else { tape::mix(best.1, i) >> 16 };
                command(root, family, seed, mask, ms, rounds).stdout(Stdio::piped()).stderr(Stdio::piped()).spawn().ok().map(|c| (ms, c))
            })
            .collect();
        let mut found = None;
        for (ms, child) in children {
            let r = finish(child);
            if found.is_none() && !r.ok && r.rule == rule && r.harness_error.is_none() {
                found = Some((ms, r.detail));
            }
        }
        if let Some((ms, detail)) = found {
            best = (mask, ms, detail);
            continue 'bits;
        }
    }
    // final confirmation of what is written down
    let fin = run_one(root, family, seed, best.0, best.1, rounds);
    if fin.ok || fin.rule != rule {
        best = (0, seed, again.detail);
    }
    let file = FineReplay {
        engine: "fine".into(),
        property: property.into(),
        family: family.into(),
        scenario_seed: seed,
        mask: best.0,
        miri_seed: best.1,
        miri_flags: MIRI_FLAGS.into(),
        rounds,
        rule: rule.into(),
        detail: best.2.clone(),
    };
    let _ = std::fs::create_dir_all(replay_dir);
    let path = format!("{replay_dir}/{property}-fine-{family}-{rule}-{seed:012x}.min.json");
    std::fs::write(&path, serde_json::to_vec_pretty(&file).unwrap()).map_err(|e| format!("cannot write {path}: {e}"))?;
    Ok((path, best.2))
}

/// `simcheck replay <file>` for a fine-tier replay file.
pub fn replay(root: &str, file: &FineReplay, human: bool) -> (RunResult, i32) {
    if human {
        println!("---- fine-tier replay: family {} scenario seed {} drop-mask {:#x} Miri seed {}", file.family, file.scenario_seed, file.mask, file.miri_seed);
        println!("     cd {}/fine && MIRIFLAGS=\"{} -Zmiri-preemption-rate={} -Zmiri-seed={}\" cargo +nightly miri run --offline -q -- {} {} {} 0 {}", root, file.miri_flags, preemption_rate(file.miri_seed), file.miri_seed, file.family, file.scenario_seed, file.mask, file.rounds);
    }
    let r = run_one(root, &file.family, file.scenario_seed, file.mask, file.miri_seed, file.rounds);
    if let Some(e) = &r.harness_error {
        eprintln!("HARNESS-ERROR: {e}");
        return (r, 2);
    }
    if human {
        println!("---- verdict: {}", if r.ok { "held".to_string() } else { format!("VIOLATION rule {}: {}", r.rule, r.detail) });
        println!("     schedule fingerprint {:#x}, {} seams passed, counters {:?}", r.trace, r.yields, r.counters);
    }
    let code = if r.ok { 0 } else { 1 };
    (r, code)
}
