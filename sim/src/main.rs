#![recursion_limit = "256"]
mod checks;
mod codec;
mod disk;
mod engines;
mod fine;
mod harness;
mod model;
mod parent;
mod runner;
mod scenario;
mod sched;
mod tape;

use runner::{Engine, FatalSink, Verdict};
use scenario::ReplayFile;
use tape::Tape;

fn usage() -> ! {
    eprintln!(
        "usage:\n  simcheck check <PROPERTY> <quick|thorough>\n  simcheck worker <ENGINE> <PROFILE> <tier> <top-seed> <first-run> <count> <deadline-unix-ms> <out-file> <replay-dir>\n  simcheck exec <replay.json> [--trace]\n  simcheck replay <replay.json>\n  simcheck smoke <PROPERTY> <runs> [first]\n  simcheck determinism <PROPERTY> <runs>"
    );
    std::process::exit(2);
}

fn top_seed() -> u64 {
    std::env::var("VERIF_SEED")
        .ok()
        .and_then(|s| s.parse::<u64>().ok())
        .unwrap_or(20260924)
}

fn start_watchdog(limit_secs: u64, label: String) -> std::sync::Arc<std::sync::atomic::AtomicU64> {
    // Wall-clock watchdog: a run that stops making progress for real is a harness error.
    let beat = std::sync::Arc::new(std::sync::atomic::AtomicU64::new(0));
    let b = std::sync::Arc::clone(&beat);
    std::thread::spawn(move || {
        let mut last = 0u64;
        let mut since = std::time::Instant::now();
        loop {
            std::thread::sleep(std::time::Duration::from_millis(500));
            // progress = a new run began or the scheduler took steps
            let now = b.load(std::sync::atomic::Ordering::SeqCst);
            let moved = now.wrapping_mul(0x9E37_79B9_7F4A_7C15) ^ sched::PROGRESS.load(std::sync::atomic::Ordering::Relaxed);
            let now = moved;
            if now != last {
                last = now;
                since = std::time::Instant::now();
            } else if since.elapsed().as_secs() >= limit_secs {
                eprintln!("simcheck: HANG ({label}): no progress for {limit_secs}s of wall time at run #{now}");
                harness::remove_scratch_dir();
                std::process::exit(runner::EXIT_HANG);
            }
        }
    });
    beat
}

fn main() {
    let args: Vec<String> = std::env::args().collect();
    if args.len() < 2 {
        usage();
    }
    // panics inside the store are observations, not noise
    std::panic::set_hook(Box::new(|info| {
        *runner::LAST_PANIC.lock().unwrap() = format!("{info}");
        if std::env::var("SIMCHECK_PANIC_VERBOSE").is_ok() {
            eprintln!("panic: {info}");
        }
    }));
    match args[1].as_str() {
        "check" => {
            if args.len() < 4 {
                usage();
            }
            std::process::exit(parent::check(&args[2], &args[3], top_seed()));
        }
        "worker" => {
            if args.len() < 11 {
                usage();
            }
            let engine = engines::engine_by_name(&args[2]);
            let property = &args[3];
            let tier = &args[4];
            let top: u64 = args[5].parse().unwrap();
            let first: u64 = args[6].parse().unwrap();
            let count: u64 = args[7].parse().unwrap();
            let deadline_ms: u128 = args[8].parse().unwrap();
            let out = &args[9];
            let replay_dir = &args[10];
            let label = format!("{}:{}", engine.name(), property);
            let beat = start_watchdog(parent::HANG_SECS, format!("{label} worker from run {first}"));
            for run in first..first + count {
                let now_ms = std::time::SystemTime::now()
                    .duration_since(std::time::UNIX_EPOCH)
                    .unwrap()
                    .as_millis();
                if now_ms >= deadline_ms {
                    break;
                }
                beat.store(run + 1, std::sync::atomic::Ordering::SeqCst);
                let seed = tape::run_seed(top, &label, run);
                let sc = engines::generate(&*engine, property, seed, tier);
                {
                    use std::io::Write;
                    let mut f = std::fs::OpenOptions::new().create(true).append(true).open(out).unwrap();
                    let _ = writeln!(f, "{{\"begin\":{run}}}");
                }
                let sink = FatalSink {
                    scenario: sc.clone(),
                    out_path: Some(out.clone()),
                    replay_dir: replay_dir.clone(),
                    print: false,
                };
                let (outcome, _, _, _) = runner::run_scenario(
                    engine,
                    &sc,
                    Tape::fresh(tape::mix(seed, 0x5C4ED)),
                    Tape::fresh(tape::mix(seed, 0xFA017)),
                    false,
                    sink,
                );
                use std::io::Write;
                let mut f = std::fs::OpenOptions::new().create(true).append(true).open(out).unwrap();
                let _ = writeln!(f, "{}", serde_json::to_string(&outcome).unwrap());
            }
            harness::remove_scratch_dir();
        }
        "exec" | "replay" => {
            if args.len() < 3 {
                usage();
            }
            let trace = args.iter().any(|a| a == "--trace") || args[1] == "replay";
            let data = std::fs::read(&args[2]).unwrap_or_else(|e| {
                eprintln!("cannot read {}: {e}", args[2]);
                std::process::exit(2)
            });
            // replay files of the fine-grained tier are executed by the interpreter
            if let Ok(f) = serde_json::from_slice::<fine::FineReplay>(&data) {
                if f.engine == "fine" {
                    let root = parent::verif_root();
                    let (r, code) = fine::replay(&root, &f, args[1] == "replay");
                    if args[1] == "exec" {
                        println!("{}", serde_json::json!({"fine": true, "ok": r.ok, "rule": r.rule, "detail": r.detail}));
                    }
                    std::process::exit(code);
                }
            }
            let file: ReplayFile = serde_json::from_slice(&data).unwrap_or_else(|e| {
                eprintln!("cannot parse {}: {e}", args[2]);
                std::process::exit(2)
            });
            let engine = engines::engine_by_name(&file.scenario.engine);
            let _beat = start_watchdog(parent::HANG_SECS, format!("exec {}", args[2]));
            _beat.store(1, std::sync::atomic::Ordering::SeqCst);
            let sink = FatalSink {
                scenario: file.scenario.clone(),
                out_path: None,
                replay_dir: std::env::var("SIMCHECK_REPLAY_DIR").unwrap_or_else(|_| "/dev/shm/simcheck-exec-replays".into()),
                print: true,
            };
            // a file written for a crashed worker carries no recorded tapes: regenerate from the seed
            let seeded = file.rule.starts_with("crash-seeded:");
            let seed = file.scenario.seed;
            let (sched, fault) = if seeded {
                (Tape::fresh(tape::mix(seed, 0x5C4ED)), Tape::fresh(tape::mix(seed, 0xFA017)))
            } else {
                (Tape::replay(file.sched.data.clone()), Tape::replay(file.fault.data.clone()))
            };
            let (outcome, _, _, sim) = runner::run_scenario(engine, &file.scenario, sched, fault, trace, sink);
            println!("{}", serde_json::to_string(&outcome).unwrap());
            if args[1] == "replay" {
                parent::print_human_trace(&file, &outcome, &sim);
            }
            harness::remove_scratch_dir();
            match outcome.verdict {
                Verdict::Ok => std::process::exit(0),
                Verdict::Violation { .. } => std::process::exit(1),
                Verdict::Inconclusive { .. } => std::process::exit(3),
            }
        }
        "gen" => {
            // simcheck gen <engine:profile> <first> <count> [knob]   write seed-only replay files of generated runs
            // (optionally only those that carry the knob) to /dev/shm/simcheck-gen and print them
            if args.len() < 5 {
                usage();
            }
            let (engine, property) = engines::parse_label(&args[2]);
            let first: u64 = args[3].parse().unwrap();
            let count: u64 = args[4].parse().unwrap();
            let label = format!("{}:{}", engine.name(), property);
            let _ = std::fs::create_dir_all("/dev/shm/simcheck-gen");
            for run in first..first + count {
                let seed = tape::run_seed(top_seed(), &label, run);
                let sc = engines::generate(engine, &property, seed, "quick");
                if let Some(k) = args.get(5) {
                    if sc.knob(k, 0) == 0 {
                        continue;
                    }
                }
                let path = format!("/dev/shm/simcheck-gen/{}-{}-{run}.json", engine.name(), property);
                let file = ReplayFile {
                    version: scenario::REPLAY_VERSION,
                    scenario: sc.clone(),
                    sched: Tape::fresh(tape::mix(seed, 0x5C4ED)),
                    fault: Tape::fresh(tape::mix(seed, 0xFA017)),
                    rule: format!("crash-seeded:{seed}"),
                    detail: String::new(),
                };
                std::fs::write(&path, serde_json::to_vec(&file).unwrap()).unwrap();
                println!("{path} knobs={:?} ops={:?}", sc.knobs, sc.clients.iter().map(|c| c.len()).collect::<Vec<_>>());
            }
        }
        "smoke" => {
            if args.len() < 4 {
                usage();
            }
            let (engine, property) = engines::parse_label(&args[2]);
            let property = &property;
            let runs: u64 = args[3].parse().unwrap();
            let first: u64 = args.get(4).and_then(|s| s.parse().ok()).unwrap_or(0);
            let label = format!("{}:{}", engine.name(), property);
            let mut ok = 0;
            let start = std::time::Instant::now();
            for run in first..first + runs {
                let seed = tape::run_seed(top_seed(), &label, run);
                let sc = engines::generate(&*engine, property, seed, "quick");
                let sink = FatalSink {
                    scenario: sc.clone(),
                    out_path: None,
                    replay_dir: "/dev/shm/simcheck-smoke".into(),
                    print: true,
                };
                let (outcome, _, _, _) = runner::run_scenario(
                    engine,
                    &sc,
                    Tape::fresh(tape::mix(seed, 0x5C4ED)),
                    Tape::fresh(tape::mix(seed, 0xFA017)),
                    false,
                    sink,
                );
                match &outcome.verdict {
                    Verdict::Ok => ok += 1,
                    v => {
                        println!("run {run} seed {seed}: {v:?} replay={:?}", outcome.replay);
                        if std::env::var("SMOKE_STOP").is_ok() {
                            break;
                        }
                    }
                }
            }
            println!("{ok}/{runs} ok in {:?}", start.elapsed());
            harness::remove_scratch_dir();
        }
        "synth-empty" => {
            // simcheck synth-empty <version> <data-blocks> <path>: an empty legacy device image
            let version: u32 = args[2].parse().unwrap();
            let blocks: usize = args[3].parse().unwrap();
            let image = codec::empty_image(version, (16 + blocks) * codec::BLOCK, 1_750_000_000);
            std::fs::write(&args[4], image).unwrap();
        }
        "determinism" => {
            if args.len() < 4 {
                usage();
            }
            std::process::exit(parent::determinism(&args[2], args[3].parse().unwrap(), top_seed()));
        }
        "hashes" => {
            // print log hashes for a run range (used by the determinism check)
            let (engine, property) = engines::parse_label(&args[2]);
            let property = &property;
            let label = format!("{}:{}", engine.name(), property);
            let first: u64 = args[3].parse().unwrap();
            let count: u64 = args[4].parse().unwrap();
            let _beat = start_watchdog(parent::HANG_SECS, "hashes".into());
            for run in first..first + count {
                _beat.store(run + 1, std::sync::atomic::Ordering::SeqCst);
                let seed = tape::run_seed(top_seed(), &label, run);
                let sc = engines::generate(&*engine, property, seed, "quick");
                let sink = FatalSink {
                    scenario: sc.clone(),
                    out_path: None,
                    replay_dir: "/dev/shm/simcheck-hashes".into(),
                    print: true,
                };
                let (o, _, _, _) = runner::run_scenario(
                    engine,
                    &sc,
                    Tape::fresh(tape::mix(seed, 0x5C4ED)),
                    Tape::fresh(tape::mix(seed, 0xFA017)),
                    false,
                    sink,
                );
                println!("{run} {:016x} {:016x} {} {:?}", o.sim.log_hash, o.case_hash, o.sim.steps, matches!(o.verdict, Verdict::Ok));
            }
            harness::remove_scratch_dir();
        }
        _ => usage(),
    }
}
