//! Sequential reference model: a last-writer-wins map with expiry, documented validation
//! rules and exact memory accounting. It says what the property texts say and is
//! deliberately silent (accepts either answer) where they are.

use std::collections::BTreeMap;

use serde::Serialize;

pub const MAX_KEY: usize = 100 * 1024;
pub const MAX_VALUE: usize = 4 * 1024 * 1024;
pub const MAX_RECOVERABLE_KEY: usize = 4096 - (4 + 2 + 8 + 8 + 8);
pub const MAX_RECOVERABLE_KEY_V1: usize = 4096 - (4 + 2 + 8 + 8);

#[derive(Clone, Debug, PartialEq, Eq, Serialize)]
pub enum ErrKind {
    InvalidKeySize,
    InvalidValueSize,
    KeyNotFound,
    OutOfMemory,
    OlderTimestamp,
    InvalidOperation,
    InvalidNumericValue,
    JsonPatch,
    TtlNotEnabled,
    Unsupported,
    StaleExtent,
    Io,
    Indeterminate,
    ShuttingDown,
    OutOfSpace,
    Channel,
    Other(String),
}

#[derive(Clone, Debug, PartialEq, Eq, Serialize)]
pub enum Res {
    Unit,
    Bool(bool),
    Int(i64),
    Size(usize),
    Opt(Option<u64>),
    Bytes(Vec<u8>),
    Pairs(Vec<(Vec<u8>, Vec<u8>)>),
    Err(ErrKind),
}

impl Res {
    pub fn brief(&self) -> String {
        match self {
            Res::Bytes(b) => format!("Bytes(len={}, head={:02x?})", b.len(), &b[..b.len().min(12)]),
            Res::Pairs(p) => format!(
                "Pairs[{}]",
                p.iter()
                    .map(|(k, v)| format!("{}:{}B", String::from_utf8_lossy(k), v.len()))
                    .collect::<Vec<_>>()
                    .join(",")
            ),
            other => format!("{other:?}"),
        }
    }
}

/// A call with every symbolic argument resolved.
#[derive(Clone, Debug, Serialize)]
pub enum Call {
    Insert { key: Vec<u8>, value: Vec<u8>, ts: Option<u64>, ttl: u64, with_ttl_api: bool },
    Get { key: Vec<u8> },
    GetSize { key: Vec<u8> },
    Contains { key: Vec<u8> },
    Delete { key: Vec<u8>, ts: Option<u64> },
    Cas { key: Vec<u8>, expected: Vec<u8>, value: Vec<u8>, ts: Option<u64>, ttl: u64 },
    Incr { key: Vec<u8>, delta: i64, ts: Option<u64>, ttl: u64 },
    InsertIfAbsent { key: Vec<u8>, value: Vec<u8> },
    JsonPatch { key: Vec<u8>, patch: Vec<u8>, ts: Option<u64> },
    UpdateTtl { key: Vec<u8>, ttl: u64 },
    GetTtl { key: Vec<u8> },
    Range { start: Vec<u8>, end: Vec<u8>, limit: usize },
    Flush,
}

impl Call {
    pub fn key(&self) -> Option<&[u8]> {
        match self {
            Call::Insert { key, .. }
            | Call::Get { key }
            | Call::GetSize { key }
            | Call::Contains { key }
            | Call::Delete { key, .. }
            | Call::Cas { key, .. }
            | Call::Incr { key, .. }
            | Call::InsertIfAbsent { key, .. }
            | Call::JsonPatch { key, .. }
            | Call::UpdateTtl { key, .. }
            | Call::GetTtl { key } => Some(key),
            Call::Range { .. } | Call::Flush => None,
        }
    }
    pub fn name(&self) -> &'static str {
        match self {
            Call::Insert { .. } => "insert",
            Call::Get { .. } => "get",
            Call::GetSize { .. } => "get_size",
            Call::Contains { .. } => "contains_key",
            Call::Delete { .. } => "delete",
            Call::Cas { .. } => "compare_and_swap",
            Call::Incr { .. } => "atomic_increment",
            Call::InsertIfAbsent { .. } => "insert_if_absent",
            Call::JsonPatch { .. } => "json_patch",
            Call::UpdateTtl { .. } => "update_ttl",
            Call::GetTtl { .. } => "get_ttl",
            Call::Range { .. } => "range_query",
            Call::Flush => "flush",
        }
    }
    pub fn brief(&self) -> String {
        let k = |k: &Vec<u8>| {
            if k.len() > 24 {
                format!("{}..({}B)", String::from_utf8_lossy(&k[..12]), k.len())
            } else {
                String::from_utf8_lossy(k).into_owned()
            }
        };
        match self {
            Call::Insert { key, value, ts, ttl, with_ttl_api } => format!(
                "insert({}, {}B, ts={ts:?}, ttl={ttl}{})",
                k(key),
                value.len(),
                if *with_ttl_api { ", ttl-api" } else { "" }
            ),
            Call::Get { key } => format!("get({})", k(key)),
            Call::GetSize { key } => format!("get_size({})", k(key)),
            Call::Contains { key } => format!("contains_key({})", k(key)),
            Call::Delete { key, ts } => format!("delete({}, ts={ts:?})", k(key)),
            Call::Cas { key, expected, value, ts, ttl } => format!(
                "cas({}, expect {}B, new {}B, ts={ts:?}, ttl={ttl})",
                k(key),
                expected.len(),
                value.len()
            ),
            Call::Incr { key, delta, ts, ttl } => {
                format!("incr({}, {delta}, ts={ts:?}, ttl={ttl})", k(key))
            }
            Call::InsertIfAbsent { key, value } => {
                format!("insert_if_absent({}, {}B)", k(key), value.len())
            }
            Call::JsonPatch { key, patch, ts } => format!(
                "json_patch({}, {}, ts={ts:?})",
                k(key),
                String::from_utf8_lossy(patch)
            ),
            Call::UpdateTtl { key, ttl } => format!("update_ttl({}, {ttl})", k(key)),
            Call::GetTtl { key } => format!("get_ttl({})", k(key)),
            Call::Range { start, end, limit } => {
                format!("range({}, {}, {limit})", k(start), k(end))
            }
            Call::Flush => "flush()".into(),
        }
    }
}

#[derive(Clone, Debug, PartialEq, Eq, Serialize)]
pub struct Gen {
    pub value: Vec<u8>,
    pub ts: u64,
    pub expiry: u64,
}

/// Post-state of a key as observed through the read-only snapshot hook.
#[derive(Clone, Debug, PartialEq, Eq)]
pub struct Obs {
    pub ts: u64,
    pub expiry: u64,
    pub value_len: usize,
}

#[derive(Clone, Debug)]
pub struct ModelCfg {
    pub ttl: bool,
    pub persistent: bool,
    pub format: u32,
    pub max_memory: Option<usize>,
    pub overhead: usize,
    /// a background sweeper may remove expired generations at any time
    pub sweeper: bool,
    /// this model sees every call made to the store (single client): the rule that a failed
    /// call's explicit timestamp never shows up in a later automatic one can be applied
    pub sees_all_calls: bool,
    /// C12 only: refusals on keys that were pinned at u64::MAX by a neighbour of the same clock
    /// shard are violations (elsewhere the store's choice of version is taken as given)
    pub judge_collateral_pins: bool,
}

#[derive(Clone, Debug)]
pub struct Model {
    pub cfg: ModelCfg,
    pub map: BTreeMap<Vec<u8>, Gen>,
    /// per key: greatest timestamp accepted or recovered for it since the store was opened
    pub floor: BTreeMap<Vec<u8>, u64>,
    pub auto_checked: u64,
    /// greatest timestamp of any accepted or recovered generation (any key)
    pub max_accepted: u64,
    /// explicit timestamps ahead of the clock carried by calls that failed
    pub rejected_future: Vec<u64>,
    /// greatest wall-clock value any call has seen so far (the clock may jump backwards;
    /// the version clock legitimately remembers the greatest value it was given)
    pub now_hint: u64,
    /// keys that were handed u64::MAX as an *automatic* version although nothing the key
    /// itself ever carried was near the maximum: they are pinned without anybody having
    /// asked for it (another key of the same clock shard pushed the shared clock there)
    pub collateral_pins: std::collections::BTreeSet<Vec<u8>>,
}

#[derive(Clone, Debug)]
pub struct Fail {
    pub rule: &'static str,
    pub detail: String,
}

fn fail<T>(rule: &'static str, detail: String) -> Result<T, Fail> {
    Err(Fail { rule, detail })
}

fn ttl_expiry(base: u64, ttl: u64) -> u64 {
    if ttl == 0 {
        0
    } else {
        base.saturating_add(ttl.saturating_mul(1_000_000_000))
    }
}

impl Model {
    pub fn new(cfg: ModelCfg) -> Self {
        Model {
            cfg,
            map: BTreeMap::new(),
            floor: BTreeMap::new(),
            auto_checked: 0,
            max_accepted: 0,
            rejected_future: Vec::new(),
            collateral_pins: Default::default(),
            now_hint: 0,
        }
    }

    pub fn record_size(&self, key: &[u8], value_len: usize) -> usize {
        self.cfg.overhead + key.len() + value_len
    }

    pub fn memory(&self) -> usize {
        self.map
            .iter()
            .map(|(k, g)| self.record_size(k, g.value.len()))
            .sum()
    }

    pub fn visible(&self, g: &Gen, now: u64) -> bool {
        !self.cfg.ttl || g.expiry == 0 || now <= g.expiry
    }

    fn validate_key(&self, key: &[u8]) -> Option<ErrKind> {
        (key.is_empty() || key.len() > MAX_KEY).then_some(ErrKind::InvalidKeySize)
    }

    fn validate_new_key(&self, key: &[u8]) -> Option<ErrKind> {
        if key.is_empty() || key.len() > MAX_KEY {
            return Some(ErrKind::InvalidKeySize);
        }
        if !self.cfg.persistent || key.len() <= MAX_RECOVERABLE_KEY {
            return None;
        }
        if self.cfg.format == 1 && key.len() <= MAX_RECOVERABLE_KEY_V1 {
            return None;
        }
        Some(ErrKind::InvalidKeySize)
    }

    fn validate_key_value(&self, key: &[u8], value: &[u8]) -> Option<ErrKind> {
        self.validate_new_key(key).or_else(|| {
            (value.is_empty() || value.len() > MAX_VALUE).then_some(ErrKind::InvalidValueSize)
        })
    }

    fn ttl_write_unsupported(&self) -> bool {
        self.cfg.persistent && self.cfg.format == 1
    }

    fn would_oom(&self, amount: usize) -> bool {
        match self.cfg.max_memory {
            None => false,
            Some(limit) => {
                amount != 0
                    && self
                        .memory()
                        .checked_add(amount)
                        .is_none_or(|next| next > limit)
            }
        }
    }

    /// Check one sequential call: `res` is what the store answered, `obs` the key's state
    /// afterwards, `now0`/`now1` the wall clock when the call was invoked / had returned.
    /// Updates the model on success.
    pub fn step(
        &mut self,
        call: &Call,
        res: &Res,
        obs: Option<&Obs>,
        now0: u64,
        now1: u64,
    ) -> Result<(), Fail> {
        // C12: an automatic write may be refused as older only on a key that was deliberately
        // pinned at the maximum timestamp
        if *res == Res::Err(ErrKind::OlderTimestamp) {
            let auto_on = match call {
                Call::Insert { key, ts: None, .. }
                | Call::Delete { key, ts: None }
                | Call::Cas { key, ts: None, .. }
                | Call::Incr { key, ts: None, .. }
                | Call::JsonPatch { key, ts: None, .. } => Some(key),
                Call::UpdateTtl { key, .. } => Some(key),
                _ => None,
            };
            if let Some(key) = auto_on {
                if self.cfg.judge_collateral_pins && self.collateral_pins.contains(key.as_slice()) {
                    return fail(
                        "collateral-max-timestamp",
                        format!(
                            "{}: refused as older on a key nobody pinned: its previous automatic write was given the version u64::MAX because another key of the same version-clock shard carries a timestamp next to the maximum; every later automatic write, delete, increment, swap, patch or TTL change of this key is refused",
                            call.brief()
                        ),
                    );
                }
            }
        }
        // The visibility of a generation whose expiry lies inside the call interval is undecided.
        let mut last: Option<Fail> = None;
        let candidates: &[u64] = if now0 == now1 { &[now0] } else { &[now0, now1] };
        for &now in candidates {
            let mut trial = self.clone();
            trial.now_hint = trial.now_hint.max(now1).max(now0);
            match trial.step_at(call, res, obs, now, now0, now1) {
                Ok(()) => {
                    *self = trial;
                    // an explicit timestamp carried by a failed call must not leak into the clock
                    if let Res::Err(_) = res {
                        let ts = match call {
                            Call::Insert { ts, .. } | Call::Delete { ts, .. } | Call::Cas { ts, .. } | Call::Incr { ts, .. } | Call::JsonPatch { ts, .. } => *ts,
                            _ => None,
                        };
                        if let Some(f) = ts {
                            if f != u64::MAX && f > self.now_hint.max(self.max_accepted).saturating_add(1_000_000) && self.rejected_future.len() < 32 {
                                self.rejected_future.push(f);
                            }
                        }
                    }
                    return Ok(());
                }
                Err(f) => last = Some(f),
            }
        }
        Err(last.unwrap())
    }

    fn expect(call: &Call, res: &Res, want: Res) -> Result<(), Fail> {
        if *res == want {
            Ok(())
        } else {
            fail(
                "result-mismatch",
                format!("{} returned {} but the reference model says {}", call.brief(), res.brief(), want.brief()),
            )
        }
    }

    /// Rules for a timestamp the store chose by itself.
    fn check_auto_ts(&mut self, call: &Call, key: &[u8], prev: Option<u64>, ts: u64) -> Result<(), Fail> {
        self.auto_checked += 1;
        if let Some(prev) = prev {
            if ts <= prev {
                return fail(
                    "auto-ts-not-increasing",
                    format!("{}: automatic timestamp {ts} does not exceed the key's previous timestamp {prev}", call.brief()),
                );
            }
        }
        let ceiling = self.now_hint.max(self.max_accepted).saturating_add(1_000_000);
        if let Some(f) = self.rejected_future.iter().find(|f| self.cfg.sees_all_calls && ts >= **f && **f > ceiling) {
            return fail(
                "rejected-timestamp-absorbed",
                format!(
                    "{}: automatic timestamp {ts} is not below {f}, an explicit timestamp that was only ever carried by a call that failed (wall clock {}, newest accepted timestamp {})",
                    call.brief(), self.now_hint, self.max_accepted
                ),
            );
        }
        if ts == u64::MAX {
            let own = prev.unwrap_or(0).max(self.floor.get(key).copied().unwrap_or(0));
            if own < u64::MAX - 1 {
                self.collateral_pins.insert(key.to_vec());
            }
        }
        if let Some(floor) = self.floor.get(key) {
            if ts <= *floor && *floor != u64::MAX {
                return fail(
                    "auto-ts-below-accepted",
                    format!("{}: automatic timestamp {ts} does not exceed {floor}, a timestamp previously accepted or recovered for this key", call.brief()),
                );
            }
        }
        Ok(())
    }

    fn note_ts(&mut self, key: &[u8], ts: u64) {
        let e = self.floor.entry(key.to_vec()).or_insert(0);
        *e = (*e).max(ts);
        if ts != u64::MAX {
            self.max_accepted = self.max_accepted.max(ts);
        }
    }

    fn obs_matches(&self, call: &Call, key: &[u8], obs: Option<&Obs>) -> Result<(), Fail> {
        match (self.map.get(key), obs) {
            (None, None) => Ok(()),
            (Some(g), Some(o)) => {
                if g.ts != o.ts || g.expiry != o.expiry || g.value.len() != o.value_len {
                    fail(
                        "state-mismatch",
                        format!(
                            "after {}: store holds (ts={}, expiry={}, len={}) but the model holds (ts={}, expiry={}, len={})",
                            call.brief(), o.ts, o.expiry, o.value_len, g.ts, g.expiry, g.value.len()
                        ),
                    )
                } else {
                    Ok(())
                }
            }
            (None, Some(o)) => fail(
                "state-mismatch",
                format!("after {}: store holds a generation (ts={}, len={}) for a key the model says is absent", call.brief(), o.ts, o.value_len),
            ),
            (Some(g), None) => fail(
                "state-mismatch",
                format!("after {}: key is gone from the store but the model holds (ts={}, expiry={}, len={})", call.brief(), g.ts, g.expiry, g.value.len()),
            ),
        }
    }

    /// Install a new generation whose timestamp is either explicit or read back from `obs`.
    #[allow(clippy::too_many_arguments)]
    fn install(
        &mut self,
        call: &Call,
        key: &[u8],
        value: Vec<u8>,
        explicit: Option<u64>,
        min_auto: Option<u64>,
        ttl: u64,
        ttl_effective: bool,
        expiry_from_now: Option<(u64, u64)>,
        obs: Option<&Obs>,
    ) -> Result<(), Fail> {
        let prev = self.map.get(key).map(|g| g.ts);
        let Some(o) = obs else {
            return fail("state-mismatch", format!("after {}: key is absent from the store", call.brief()));
        };
        let ts = match explicit {
            Some(ts) => ts,
            None => {
                self.check_auto_ts(call, key, prev, o.ts)?;
                if let Some(min) = min_auto {
                    if o.ts < min {
                        return fail("auto-ts-not-increasing", format!("{}: automatic timestamp {} below required minimum {min}", call.brief(), o.ts));
                    }
                }
                o.ts
            }
        };
        let expiry = match expiry_from_now {
            Some((lo, hi)) => {
                // expiry = now + ttl with `now` read somewhere inside the call
                if ttl == 0 {
                    0
                } else {
                    let lo = ttl_expiry(lo, ttl);
                    let hi = ttl_expiry(hi, ttl);
                    if o.expiry < lo || o.expiry > hi {
                        return fail("expiry-mismatch", format!("after {}: expiry {} outside [{lo}, {hi}]", call.brief(), o.expiry));
                    }
                    o.expiry
                }
            }
            None => {
                if ttl > 0 && ttl_effective {
                    ttl_expiry(ts, ttl)
                } else {
                    0
                }
            }
        };
        self.map.insert(key.to_vec(), Gen { value, ts, expiry });
        self.note_ts(key, ts);
        self.obs_matches(call, key, obs)
    }

    fn step_at(
        &mut self,
        call: &Call,
        res: &Res,
        obs: Option<&Obs>,
        now: u64,
        now0: u64,
        now1: u64,
    ) -> Result<(), Fail> {
        // An expired generation may be retired lazily (or by the sweeper) at any time.
        if let Some(key) = call.key() {
            if let Some(g) = self.map.get(key) {
                let maybe_expired = self.cfg.ttl && g.expiry != 0 && now1 > g.expiry;
                if maybe_expired && obs.is_none() && !matches!(call, Call::Delete { .. } | Call::Incr { .. } | Call::Insert { .. } | Call::Cas { .. } | Call::JsonPatch { .. } | Call::UpdateTtl { .. } | Call::InsertIfAbsent { .. }) {
                    if self.cfg.sweeper {
                        self.map.remove(key);
                    }
                }
            }
        }
        match call {
            Call::Insert { key, value, ts, ttl, with_ttl_api } => {
                if *with_ttl_api {
                    if !self.cfg.ttl {
                        Self::expect(call, res, Res::Err(ErrKind::TtlNotEnabled))?;
                        return self.obs_matches(call, key, obs);
                    }
                    if self.ttl_write_unsupported() {
                        Self::expect(call, res, Res::Err(ErrKind::Unsupported))?;
                        return self.obs_matches(call, key, obs);
                    }
                }
                if let Some(e) = self.validate_key_value(key, value) {
                    Self::expect(call, res, Res::Err(e))?;
                    return self.obs_matches(call, key, obs);
                }
                let existing = self.map.get(key).cloned();
                if let (Some(g), Some(ts)) = (&existing, ts) {
                    if *ts <= g.ts {
                        Self::expect(call, res, Res::Err(ErrKind::OlderTimestamp))?;
                        return self.obs_matches(call, key, obs);
                    }
                }
                if let (Some(g), None) = (&existing, ts) {
                    if g.ts == u64::MAX {
                        // pinned at the maximum: an automatic write cannot exceed it
                        Self::expect(call, res, Res::Err(ErrKind::OlderTimestamp))?;
                        return self.obs_matches(call, key, obs);
                    }
                }
                let new_size = self.record_size(key, value.len());
                let amount = match &existing {
                    Some(g) => new_size.saturating_sub(self.record_size(key, g.value.len())),
                    None => new_size,
                };
                if self.would_oom(amount) {
                    Self::expect(call, res, Res::Err(ErrKind::OutOfMemory))?;
                    return self.obs_matches(call, key, obs);
                }
                Self::expect(call, res, Res::Bool(existing.is_none()))?;
                self.install(call, key, value.clone(), *ts, None, *ttl, self.cfg.ttl, None, obs)
            }
            Call::Get { key } => {
                if let Some(e) = self.validate_key(key) {
                    return Self::expect(call, res, Res::Err(e));
                }
                match self.map.get(key) {
                    None => Self::expect(call, res, Res::Err(ErrKind::KeyNotFound)),
                    Some(g) if !self.visible(g, now) => {
                        Self::expect(call, res, Res::Err(ErrKind::KeyNotFound))
                    }
                    Some(g) => Self::expect(call, res, Res::Bytes(g.value.clone())),
                }
            }
            Call::GetSize { key } => {
                if let Some(e) = self.validate_key(key) {
                    return Self::expect(call, res, Res::Err(e));
                }
                match self.map.get(key) {
                    None => Self::expect(call, res, Res::Err(ErrKind::KeyNotFound)),
                    Some(g) if !self.visible(g, now) => match res {
                        Res::Err(ErrKind::KeyNotFound) => Ok(()),
                        other => Self::expect(call, other, Res::Size(g.value.len())),
                    },
                    Some(g) => Self::expect(call, res, Res::Size(g.value.len())),
                }
            }
            Call::Contains { key } => match self.map.get(key) {
                None => Self::expect(call, res, Res::Bool(false)),
                Some(g) if !self.visible(g, now) => match res {
                    Res::Bool(_) => Ok(()),
                    other => Self::expect(call, other, Res::Bool(true)),
                },
                Some(_) => Self::expect(call, res, Res::Bool(true)),
            },
            Call::Delete { key, ts } => {
                if let Some(e) = self.validate_key(key) {
                    Self::expect(call, res, Res::Err(e))?;
                    return self.obs_matches(call, key, obs);
                }
                let Some(g) = self.map.get(key).cloned() else {
                    Self::expect(call, res, Res::Err(ErrKind::KeyNotFound))?;
                    return self.obs_matches(call, key, obs);
                };
                let rejected = match ts {
                    Some(ts) => *ts <= g.ts,
                    None => g.ts == u64::MAX,
                };
                if rejected {
                    Self::expect(call, res, Res::Err(ErrKind::OlderTimestamp))?;
                    return self.obs_matches(call, key, obs);
                }
                if !self.visible(&g, now) && *res == Res::Err(ErrKind::KeyNotFound) {
                    // silent zone: deleting an expired generation may say not-found
                    if obs.is_none() {
                        self.map.remove(key);
                    }
                    return self.obs_matches(call, key, obs);
                }
                Self::expect(call, res, Res::Unit)?;
                self.map.remove(key);
                if let Some(ts) = ts {
                    self.note_ts(key, *ts);
                }
                self.obs_matches(call, key, obs)
            }
            Call::Cas { key, expected, value, ts, ttl } => {
                if *ttl > 0 && self.ttl_write_unsupported() {
                    Self::expect(call, res, Res::Err(ErrKind::Unsupported))?;
                    return self.obs_matches(call, key, obs);
                }
                if let Some(e) = self.validate_key_value(key, value) {
                    Self::expect(call, res, Res::Err(e))?;
                    return self.obs_matches(call, key, obs);
                }
                let Some(g) = self.map.get(key).cloned() else {
                    Self::expect(call, res, Res::Bool(false))?;
                    return self.obs_matches(call, key, obs);
                };
                if !self.visible(&g, now) || g.value != *expected {
                    Self::expect(call, res, Res::Bool(false))?;
                    return self.obs_matches(call, key, obs);
                }
                let rejected = match ts {
                    Some(ts) => *ts <= g.ts,
                    None => g.ts == u64::MAX,
                };
                if rejected {
                    Self::expect(call, res, Res::Err(ErrKind::OlderTimestamp))?;
                    return self.obs_matches(call, key, obs);
                }
                let amount = self
                    .record_size(key, value.len())
                    .saturating_sub(self.record_size(key, g.value.len()));
                if self.would_oom(amount) {
                    Self::expect(call, res, Res::Err(ErrKind::OutOfMemory))?;
                    return self.obs_matches(call, key, obs);
                }
                Self::expect(call, res, Res::Bool(true))?;
                // a TTL carried by CAS is recorded even when TTL handling is disabled
                self.install(call, key, value.clone(), *ts, None, *ttl, true, None, obs)
            }
            Call::Incr { key, delta, ts, ttl } => {
                if *ttl > 0 && self.ttl_write_unsupported() {
                    Self::expect(call, res, Res::Err(ErrKind::Unsupported))?;
                    return self.obs_matches(call, key, obs);
                }
                if let Some(e) = self.validate_new_key(key) {
                    Self::expect(call, res, Res::Err(e))?;
                    return self.obs_matches(call, key, obs);
                }
                let existing = self.map.get(key).cloned();
                let mut min_auto = None;
                if let Some(g) = &existing {
                    if let Some(ts) = ts {
                        if *ts <= g.ts {
                            Self::expect(call, res, Res::Err(ErrKind::OlderTimestamp))?;
                            return self.obs_matches(call, key, obs);
                        }
                    }
                    if self.visible(g, now) {
                        if g.value.len() != 8 {
                            Self::expect(call, res, Res::Err(ErrKind::InvalidOperation))?;
                            return self.obs_matches(call, key, obs);
                        }
                        if ts.is_none() && g.ts == u64::MAX {
                            Self::expect(call, res, Res::Err(ErrKind::OlderTimestamp))?;
                            return self.obs_matches(call, key, obs);
                        }
                        let cur = i64::from_le_bytes(g.value[..8].try_into().unwrap());
                        let new = cur.saturating_add(*delta);
                        // sizes are equal: no reservation can fail
                        Self::expect(call, res, Res::Int(new))?;
                        return self.install(call, key, new.to_le_bytes().to_vec(), *ts, None, *ttl, true, None, obs);
                    }
                    // expired: the generation is retired at `now`, then the key is created afresh
                    self.map.remove(key);
                    self.note_ts(key, now0);
                    if let Some(ts) = ts {
                        if *ts <= now1 {
                            // retired_at lies in [now0, now1]; a timestamp not above it is rejected
                            if *res == Res::Err(ErrKind::OlderTimestamp) {
                                return self.obs_matches(call, key, obs);
                            }
                            if *ts <= now0 {
                                Self::expect(call, res, Res::Err(ErrKind::OlderTimestamp))?;
                            }
                        }
                    } else {
                        min_auto = Some(now0.saturating_add(1));
                    }
                }
                if self.would_oom(self.record_size(key, 8)) {
                    Self::expect(call, res, Res::Err(ErrKind::OutOfMemory))?;
                    return self.obs_matches(call, key, obs);
                }
                Self::expect(call, res, Res::Int(*delta))?;
                self.install(call, key, delta.to_le_bytes().to_vec(), *ts, min_auto, *ttl, true, None, obs)
            }
            Call::InsertIfAbsent { key, value } => {
                if let Some(e) = self.validate_key_value(key, value) {
                    Self::expect(call, res, Res::Err(e))?;
                    return self.obs_matches(call, key, obs);
                }
                if self.map.contains_key(key) {
                    Self::expect(call, res, Res::Bool(false))?;
                    return self.obs_matches(call, key, obs);
                }
                if self.would_oom(self.record_size(key, value.len())) {
                    Self::expect(call, res, Res::Err(ErrKind::OutOfMemory))?;
                    return self.obs_matches(call, key, obs);
                }
                Self::expect(call, res, Res::Bool(true))?;
                self.install(call, key, value.clone(), None, None, 0, false, None, obs)
            }
            Call::JsonPatch { key, patch, ts } => {
                if let Some(e) = self.validate_key(key) {
                    Self::expect(call, res, Res::Err(e))?;
                    return self.obs_matches(call, key, obs);
                }
                let Some(g) = self.map.get(key).cloned() else {
                    Self::expect(call, res, Res::Err(ErrKind::KeyNotFound))?;
                    return self.obs_matches(call, key, obs);
                };
                let rejected = match ts {
                    Some(ts) => *ts <= g.ts,
                    None => g.ts == u64::MAX,
                };
                if rejected {
                    Self::expect(call, res, Res::Err(ErrKind::OlderTimestamp))?;
                    return self.obs_matches(call, key, obs);
                }
                if !self.visible(&g, now) {
                    Self::expect(call, res, Res::Err(ErrKind::KeyNotFound))?;
                    return self.obs_matches(call, key, obs);
                }
                let new_value = match apply_patch(&g.value, patch) {
                    Some(v) => v,
                    None => {
                        Self::expect(call, res, Res::Err(ErrKind::JsonPatch))?;
                        return self.obs_matches(call, key, obs);
                    }
                };
                if let Some(e) = self.validate_key_value(key, &new_value) {
                    Self::expect(call, res, Res::Err(e))?;
                    return self.obs_matches(call, key, obs);
                }
                let amount = self
                    .record_size(key, new_value.len())
                    .saturating_sub(self.record_size(key, g.value.len()));
                if self.would_oom(amount) {
                    Self::expect(call, res, Res::Err(ErrKind::OutOfMemory))?;
                    return self.obs_matches(call, key, obs);
                }
                Self::expect(call, res, Res::Unit)?;
                self.install(call, key, new_value, *ts, None, 0, false, None, obs)
            }
            Call::UpdateTtl { key, ttl } => {
                if !self.cfg.ttl {
                    Self::expect(call, res, Res::Err(ErrKind::TtlNotEnabled))?;
                    return self.obs_matches(call, key, obs);
                }
                if self.ttl_write_unsupported() {
                    Self::expect(call, res, Res::Err(ErrKind::Unsupported))?;
                    return self.obs_matches(call, key, obs);
                }
                if let Some(e) = self.validate_key(key) {
                    Self::expect(call, res, Res::Err(e))?;
                    return self.obs_matches(call, key, obs);
                }
                let Some(g) = self.map.get(key).cloned() else {
                    Self::expect(call, res, Res::Err(ErrKind::KeyNotFound))?;
                    return self.obs_matches(call, key, obs);
                };
                if !self.visible(&g, now) {
                    Self::expect(call, res, Res::Err(ErrKind::KeyNotFound))?;
                    return self.obs_matches(call, key, obs);
                }
                if g.ts == u64::MAX {
                    Self::expect(call, res, Res::Err(ErrKind::OlderTimestamp))?;
                    return self.obs_matches(call, key, obs);
                }
                Self::expect(call, res, Res::Unit)?;
                self.install(call, key, g.value.clone(), None, None, *ttl, true, Some((now0, now1)), obs)
            }
            Call::GetTtl { key } => {
                if !self.cfg.ttl {
                    return Self::expect(call, res, Res::Err(ErrKind::TtlNotEnabled));
                }
                if let Some(e) = self.validate_key(key) {
                    return Self::expect(call, res, Res::Err(e));
                }
                match self.map.get(key) {
                    None => Self::expect(call, res, Res::Err(ErrKind::KeyNotFound)),
                    Some(g) if g.expiry == 0 => Self::expect(call, res, Res::Opt(None)),
                    Some(g) => {
                        let at = |n: u64| if n >= g.expiry { 0 } else { (g.expiry - n) / 1_000_000_000 };
                        match res {
                            Res::Opt(Some(v)) if *v <= at(now0) && *v >= at(now1) => Ok(()),
                            other => Self::expect(call, other, Res::Opt(Some(at(now)))),
                        }
                    }
                }
            }
            Call::Range { start, end, limit } => {
                if start.len() > MAX_KEY || end.len() > MAX_KEY {
                    return Self::expect(call, res, Res::Err(ErrKind::InvalidKeySize));
                }
                if now0 != now1 && *limit > 0 && start <= end {
                    // The clock moved during the scan: each key is judged at its own instant
                    // inside [now0, now1]. Keys visible at both ends must appear, keys
                    // invisible at both must not, the others may.
                    let Res::Pairs(got) = res else {
                        return Self::expect(call, res, Res::Pairs(Vec::new()));
                    };
                    let mut ok = got.len() <= *limit && got.windows(2).all(|w| w[0].0 < w[1].0);
                    for (k, v) in got {
                        ok &= k >= start
                            && k <= end
                            && self.map.get(k).is_some_and(|g| g.value == *v && self.visible(g, now0));
                    }
                    let window_end = if got.len() < *limit { None } else { got.last().map(|(k, _)| k.clone()) };
                    for (k, g) in self.map.range(start.clone()..=end.clone()) {
                        let inside = window_end.as_ref().is_none_or(|e| k <= e);
                        if inside && self.visible(g, now1) && !got.iter().any(|(gk, _)| gk == k) {
                            ok = false;
                        }
                    }
                    return if ok {
                        Ok(())
                    } else {
                        fail(
                            "result-mismatch",
                            format!("{} returned {} which is not consistent with the model for any per-key instants in [{now0}, {now1}]", call.brief(), res.brief()),
                        )
                    };
                }
                let mut want = Vec::new();
                if *limit > 0 && start <= end {
                    for (k, g) in self.map.range(start.clone()..=end.clone()) {
                        if want.len() >= *limit {
                            break;
                        }
                        if self.visible(g, now) {
                            want.push((k.clone(), g.value.clone()));
                        }
                    }
                }
                Self::expect(call, res, Res::Pairs(want))
            }
            Call::Flush => Self::expect(call, res, Res::Unit),
        }
    }

    /// What a clean restart (or a recovery) at wall time in [now0, now1] must leave.
    /// `observed`: every key the reopened store holds, with its generation.
    pub fn after_recovery(
        &mut self,
        observed: &BTreeMap<Vec<u8>, Obs>,
        now0: u64,
        now1: u64,
    ) -> Result<(), Fail> {
        let keys: Vec<Vec<u8>> = self.map.keys().cloned().collect();
        for k in keys {
            let g = self.map.get(&k).unwrap().clone();
            let must_stay = !self.cfg.ttl || g.expiry == 0 || now1 <= g.expiry;
            let must_go = self.cfg.ttl && g.expiry != 0 && now0 > g.expiry;
            match observed.get(&k) {
                Some(o) => {
                    if must_go {
                        return fail("expired-recovered", format!("recovery kept key {:?} whose newest generation expired at {} (now {now0})", String::from_utf8_lossy(&k), g.expiry));
                    }
                    if o.ts != g.ts || o.expiry != g.expiry || o.value_len != g.value.len() {
                        return fail("recovered-generation-mismatch", format!("key {:?}: recovered (ts={}, expiry={}, len={}) but the model holds (ts={}, expiry={}, len={})", String::from_utf8_lossy(&k), o.ts, o.expiry, o.value_len, g.ts, g.expiry, g.value.len()));
                    }
                }
                None => {
                    if must_stay {
                        return fail("recovery-lost-key", format!("key {:?} (ts={}, expiry={}) is missing after restart", String::from_utf8_lossy(&k), g.ts, g.expiry));
                    }
                    self.map.remove(&k);
                }
            }
        }
        for k in observed.keys() {
            if !self.map.contains_key(k) {
                return fail("recovery-phantom-key", format!("key {:?} appeared after restart", String::from_utf8_lossy(k)));
            }
        }
        // the version clock restarts from what recovery saw
        self.floor = self.map.iter().map(|(k, g)| (k.clone(), g.ts)).collect();
        self.rejected_future.clear();
        Ok(())
    }
}

/// RFC 6902 patch of a JSON document, serialised the way serde_json serialises a `Value`.
pub fn apply_patch(document: &[u8], patch: &[u8]) -> Option<Vec<u8>> {
    let mut doc: serde_json::Value = serde_json::from_slice(document).ok()?;
    let patch: json_patch::Patch = serde_json::from_slice(patch).ok()?;
    json_patch::patch(&mut doc, &patch).ok()?;
    serde_json::to_vec(&doc).ok()
}
