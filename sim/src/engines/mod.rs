pub mod admit;
pub mod bigrec;
pub mod cache;
pub mod conc;
pub mod corr;
pub mod crash;
pub mod fault;
pub mod golden;
pub mod live;
pub mod migr;
pub mod seq;

use crate::runner::Engine;

static SEQ: seq::SeqEngine = seq::SeqEngine;
static CRASH: crash::CrashEngine = crash::CrashEngine;
static CONC: conc::ConcEngine = conc::ConcEngine;
static FAULT: fault::FaultEngine = fault::FaultEngine;
static LIVE: live::LiveEngine = live::LiveEngine;
static MIGR: migr::MigrEngine = migr::MigrEngine;
static CORR: corr::CorrEngine = corr::CorrEngine;
static CACHE: cache::CacheEngine = cache::CacheEngine;
static GOLDEN: golden::GoldenEngine = golden::GoldenEngine;
static BIGREC: bigrec::BigRecEngine = bigrec::BigRecEngine;
static ADMIT: admit::AdmitEngine = admit::AdmitEngine;

pub fn engine_by_name(name: &str) -> &'static dyn Engine {
    match name {
        "seq" => &SEQ,
        "crash" => &CRASH,
        "conc" => &CONC,
        "fault" => &FAULT,
        "live" => &LIVE,
        "migr" => &MIGR,
        "corr" => &CORR,
        "cache" => &CACHE,
        "golden" => &GOLDEN,
        "bigrec" => &BIGREC,
        "admit" => &ADMIT,
        other => {
            eprintln!("unknown engine {other}");
            std::process::exit(2);
        }
    }
}

/// "engine:profile" or a bare property id (its primary engine).
pub fn parse_label(label: &str) -> (&'static dyn Engine, String) {
    match label.split_once(':') {
        Some((e, p)) => (engine_by_name(e), p.to_string()),
        None => (engine_for(label), label.to_string()),
    }
}

/// Primary engine of a property (a check may run several; see parent::plan).
pub fn engine_for(property: &str) -> &'static dyn Engine {
    match property {
        "C01" | "C10" | "C11" | "C12" | "C13" | "C14" | "C16" | "C05" => &SEQ,
        "C02" | "C03" | "C04" => &CRASH,
        "C07" | "C08" | "C18" => &CONC,
        "C09" => &FAULT,
        "C19" => &LIVE,
        "C15" => &MIGR,
        "C17" => &CORR,
        other => {
            eprintln!("no engine for property {other}");
            std::process::exit(2);
        }
    }
}

use crate::parent::{Plan, Stage};

const REAL: [&str; 13] = [
    "FeoxStore public API", "scc hash index", "crossbeam skiplist index + epoch reclamation",
    "sharded write buffer", "flush workers + periodic coordinator (real threads, simulated scheduling)",
    "allocation journal", "retirement markers + retirement queue", "recovery scan",
    "free-space manager", "CLOCK cache", "TTL sweeper", "metadata / record serialisation",
    "DiskIO batch submission/completion code (InFlightBuffers, AlignedBuffer copies, completion validation, indeterminate-write poisoning) in the runs whose device carries the simulated ring",
];
const STUBS: [&str; 8] = [
    "pread/pwrite/fsync -> SimDisk (page cache, durable image, pending/limbo writes, faults, crashes)",
    "wall clock -> virtual clock", "thread::sleep / recv_timeout / lock waits -> virtual-time scheduler",
    "choice of running thread -> seeded scheduler (baton over real OS threads)",
    "ahash seeds -> derived from run seed", "num_cpus -> configuration", "retry jitter -> 0, sweeper sampling rng -> seeded",
    "io_uring kernel side -> simulated ring in 3 of 8 persistent runs of the seq/crash/conc/fault/live engines (hook H12: queued entries are raw pointers the simulated kernel reads at enter time or, for entries orphaned by a failed enter, after the store is gone; completion order shuffled; enter failures, EINTR, full submission queue, short/failed completions; 1 in 8 runs with O_DIRECT alignment rules). The real kernel ring, SQPOLL and a real O_DIRECT file are NOT exercised; reads and single-sector writes take the synchronous simulated path",
];

fn stage(engine: &'static str, profile: &str, q: u64, t: u64) -> Stage {
    Stage { engine, profile: profile.to_string(), runs_quick: q, runs_thorough: t }
}

pub fn plan(property: &str) -> Option<Plan> {
    let (stages, level) = match property {
        "C01" => (vec![stage("seq", "C01", 24_000, 400_000)], "exploration"),
        "C05" => (vec![stage("seq", "C05", 20_000, 300_000), stage("crash", "C05", 2_500, 30_000)], "exploration"),
        "C09" => (vec![stage("fault", "C09", 8_000, 100_000), stage("crash", "C09", 1_200, 16_000)], "fault_enumeration"),
        "C10" => (vec![stage("seq", "C10", 20_000, 300_000), stage("golden", "C10", 600, 6_000), stage("migr", "C10", 2_000, 30_000), stage("corr", "C10", 2_500, 40_000)], "exploration"),
        "C07" => (vec![stage("conc", "C07", 60_000, 1_500_000), stage("seq", "C01", 8_000, 100_000)], "exploration"),
        "C18" => (
            vec![
                stage("conc", "C18", 40_000, 800_000),
                stage("fault", "C09", 3_000, 40_000),
                stage("live", "C19", 2_500, 30_000),
                stage("crash", "C03", 1_500, 20_000),
                stage("conc", "C11", 10_000, 200_000),
            ],
            "exploration",
        ),
        "C08" => (vec![stage("conc", "C08", 40_000, 1_000_000)], "exploration"),
        "C11" => (vec![stage("seq", "C11", 24_000, 300_000), stage("conc", "C11", 30_000, 600_000), stage("crash", "C11", 2_500, 30_000), stage("bigrec", "C11", 16, 200)], "exploration"),
        "C12" => (vec![stage("seq", "C12", 24_000, 300_000), stage("crash", "C12", 1_500, 20_000), stage("conc", "C11", 15_000, 300_000)], "exploration"),
        "C13" => (vec![stage("seq", "C13", 24_000, 300_000), stage("conc", "C13", 40_000, 800_000), stage("crash", "C13", 2_000, 20_000), stage("admit", "C13", 20_000, 400_000)], "exploration"),
        "C14" => (vec![stage("seq", "C14", 24_000, 300_000), stage("conc", "C14", 40_000, 800_000)], "exploration"),
        "C15" => (vec![stage("migr", "C15", 8_000, 120_000)], "exploration"),
        "C16" => (vec![stage("seq", "C16", 12_000, 200_000), stage("conc", "C16", 30_000, 600_000), stage("cache", "C16", 20_000, 300_000)], "exploration"),
        "C17" => (vec![stage("corr", "C17", 30_000, 600_000)], "exploration"),
        "C19" => (vec![stage("live", "C19", 6_000, 80_000)], "exploration"),
        "C20" => (
            vec![
                stage("conc", "C14", 12_000, 300_000),
                stage("conc", "C07", 12_000, 300_000),
                stage("conc", "C08", 10_000, 250_000),
                stage("conc", "C11", 6_000, 150_000),
                stage("cache", "C16", 4_000, 80_000),
                stage("fault", "C09", 1_500, 30_000),
                stage("corr", "C17", 6_000, 150_000),
                stage("crash", "C03", 800, 15_000),
            ],
            "exploration",
        ),
        "C02" => (vec![stage("crash", "C02", 6_000, 60_000), stage("fault", "C09", 2_500, 30_000)], "fault_enumeration"),
        "C03" => (vec![stage("crash", "C03", 6_000, 60_000), stage("crash", "C04", 500, 8_000)], "fault_enumeration"),
        "C04" => (vec![stage("crash", "C04", 2_000, 30_000), stage("bigrec", "C04", 16, 200)], "fault_enumeration"),
        _ => return None,
    };
    Some(Plan {
        stages,
        level,
        quick_cap_secs: 150,
        thorough_cap_secs: 1500,
        stubs: STUBS.to_vec(),
        real: REAL.to_vec(),
    })
}

/// Scenario generation plus the per-run switches every engine shares.
pub fn generate(engine: &dyn crate::runner::Engine, profile: &str, seed: u64, tier: &str) -> crate::scenario::Scenario {
    let mut sc = engine.generate(profile, seed, tier);
    // half of the runs model parking_lot's writer preference (readers queue behind a waiting
    // writer), the other half let readers overtake it
    if crate::tape::Tape::fresh(crate::tape::mix(seed, 0x7277)).chance(1, 2) {
        sc.sim.buggify.insert("rwlock.writer_preference".into(), 1000);
    }
    // hook H14: half of the runs take a scheduling point right after a writing call released its
    // hash-index entry (work that a change moved out of the entry's protection becomes a window)
    if crate::tape::Tape::fresh(crate::tape::mix(seed, 0x1E47)).chance(1, 2) {
        sc.sim.buggify.insert("index.after_entry_release".into(), 1000);
    }
    sc
}
