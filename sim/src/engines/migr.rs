//! `migr`: legacy (v1/v2) images - produced by the engine itself in compatibility mode,
//! including crashed ones, and synthesised directly - fed to `migrate()` with and without the
//! ambiguity opt-in, with an existing destination, and with device faults injected into the
//! destination's writes. Serves C15.

use std::collections::BTreeMap;
use std::sync::Arc;

use feoxdb::{migrate, MigrationError, MigrationOptions};

use crate::codec::{self, DecodeOptions};
use crate::disk::{FaultKind, FaultPlan, SimDisk};
use crate::harness::{self, Env, Resolver};
use crate::model::{Gen, Model};
use crate::runner::{BodyReport, Engine};
use crate::scenario::*;
use crate::sched::{Sim, SimConfig, Strategy};
use crate::tape::{mix, Tape};

pub struct MigrEngine;

fn show(k: &[u8]) -> String {
    String::from_utf8_lossy(&k[..k.len().min(24)]).into_owned()
}

impl Engine for MigrEngine {
    fn name(&self) -> &'static str {
        "migr"
    }

    fn nontrivial_rule(&self, _property: &str) -> String {
        "run called migrate() on a legacy image holding >= 1 record (or an ambiguous marker / an existing destination / a failing destination device) and compared source bytes, destination contents and leftovers; distinct = distinct hash of (image recipe, options, fault plan)".into()
    }

    fn generate(&self, property: &str, seed: u64, tier: &str) -> Scenario {
        let mut c = Tape::fresh(mix(seed, 0xC0F6));
        let mut w = Tape::fresh(mix(seed, 0x3017));
        let version = 1 + c.below(2);
        let data_blocks = *c.pick(&[48u64, 96, 400]);
        let n_keys = 2 + c.below(8) as usize;
        let max_key = if version == 1 { crate::model::MAX_RECOVERABLE_KEY_V1 } else { crate::model::MAX_RECOVERABLE_KEY };
        let keys = gen_keys(&mut c, n_keys, max_key.min(700));
        let sim = SimConfig {
            strategy: if c.chance(1, 2) { Strategy::Random } else { Strategy::Sticky(200) },
            tick_ns: *c.pick(&[0u64, 1_000]),
            shards: 1 + c.below(3) as usize,
            workers: 1 + c.below(2) as usize,
            hash_seed: c.u64(),
            ..SimConfig::default()
        };
        let store = StoreCfg {
            persistent: true,
            format: version,
            cache: false,
            ttl: version == 2 && c.chance(1, 2),
            hash_bits: 4,
            data_blocks,
            max_memory: None,
            sweeper: None,
            create_empty_file: false,
            allow_ambiguous: false,
            ring: 0,
        };
        // workload used when the source image is produced by running the store in compatibility mode
        let mut ops = Vec::new();
        let n_ops = 4 + w.below(if tier == "thorough" { 40 } else { 20 }) as usize;
        for _ in 0..n_ops {
            let key = w.below(n_keys as u32) as usize;
            ops.push(match w.below(12) {
                0..=6 => Op::Insert {
                    key,
                    val: Val { len: gen_len(&mut w, 4), kind: ValKind::Plain },
                    ts: if w.chance(1, 4) { Ts::RelCur(1 + w.below(100) as i64) } else { Ts::Auto },
                    ttl: if store.ttl && w.chance(1, 3) { *w.pick(&[1u64, 3600]) } else { 0 },
                    bytes: false,
                },
                7 | 8 => Op::Delete { key, ts: Ts::Auto },
                9 => Op::Flush,
                10 => if w.chance(1, 2) { Op::Flush } else { Op::Advance { ns: 1_500_000_000 } },
                _ => Op::Incr { key, delta: 3, ts: Ts::Auto, ttl: 0 },
            });
        }
        let mut knobs = BTreeMap::new();
        // 0 workload + clean close, 1 workload + crash image, 2 synthesised image
        knobs.insert("source".into(), c.below(3) as i64);
        knobs.insert("allow".into(), c.chance(1, 2) as i64);
        knobs.insert("existing_dest".into(), c.chance(1, 8) as i64);
        // own tape: somebody creates the destination after this many virtual microseconds
        let mut it = Tape::fresh(mix(seed, 0x1A7D));
        knobs.insert("intruder_after_us".into(), if it.chance(1, 5) { it.below(30_000) as i64 } else { -1 });
        // own tape: somebody touches the SOURCE (new modification time, same bytes) while the copy is
        // under way - the migration may notice and fail, but then nothing may be left at the destination
        let mut tt = Tape::fresh(mix(seed, 0x70C4));
        knobs.insert("toucher_after_us".into(), if knobs.get("intruder_after_us") == Some(&-1) && tt.chance(1, 6) { tt.below(30_000) as i64 } else { -1 });
        knobs.insert("dest_faults".into(), c.chance(1, 3) as i64);
        // own tape: syncing the destination's directory fails now and then (hook H10) - a failure
        // after the destination was linked must still leave nothing at the destination path
        let mut ds = Tape::fresh(mix(seed, 0xD125));
        let mut sim = sim;
        if ds.chance(1, 6) {
            sim.buggify.insert("migrate.dir_sync".into(), *ds.pick(&[300u32, 500, 1000]));
            if ds.chance(1, 2) {
                sim.buggify_limits.insert("migrate.dir_sync".into(), 1);
            }
            knobs.insert("dir_sync_faults".into(), 1);
        }
        knobs.insert("synth_records".into(), if c.chance(1, 6) { 300 } else { 1 + c.below(12) as i64 });
        knobs.insert("synth_dups".into(), c.below(4) as i64);
        knobs.insert("synth_expired_winner".into(), c.chance(1, 3) as i64);
        knobs.insert("synth_legacy_markers".into(), if c.chance(1, 3) { 1 + c.below(3) as i64 } else { 0 });
        knobs.insert("synth_new_markers".into(), c.below(3) as i64);
        // own tape: "scattered" synthesised sources - a device of several 256-block scan windows,
        // multi-block records, duplicates and retirement chains placed across the window
        // boundaries and against the end of the device (see synth_scatter)
        let mut sk = Tape::fresh(mix(seed, 0x5CA7));
        let mut store = store;
        if sk.chance(1, 5) {
            knobs.insert("source".into(), 2);
            knobs.insert("synth_scatter".into(), 1);
            store.data_blocks = *sk.pick(&[258u64, 270, 300, 511, 513, 530, 700, 770, 1008, 1030]) + sk.below(3) as u64;
            // one source in ten also holds a record at or next to the value-size limit (4 MiB)
            if sk.chance(1, 10) {
                store.data_blocks = 1100 + sk.below(300) as u64;
                knobs.insert("synth_giant".into(), 1 + sk.below(4) as i64);
            }
        }
        let _ = property;
        Scenario {
            engine: "migr".into(),
            property: property.into(),
            seed,
            sim,
            store,
            keys,
            clients: vec![ops],
            faults: FaultPlan::default(),
            knobs,
        }
    }

    fn body(&self, sim: &Arc<Sim>, sc: &Scenario) -> BodyReport {
        let mut report = BodyReport::default();
        let mut pick = Tape::fresh(mix(sc.seed, 0x319A));
        let version = sc.store.format;
        // ---- 1. the source image
        let source_mode = sc.knob("source", 2);
        let image: Vec<u8> = match source_mode {
            0 | 1 => match image_from_workload(sim, sc, source_mode == 1, &mut pick, &mut report) {
                Some(i) => i,
                None => return report,
            },
            _ if sc.knob("synth_scatter", 0) == 1 => synth_scatter(sc, &mut pick, sc.seed),
            _ => synth_image(sc, &mut pick),
        };
        if sc.knob("synth_scatter", 0) == 1 {
            report.count("scattered_multi_window_sources", 1);
        }
        report.count(&format!("source_mode_{source_mode}_v{version}"), 1);
        let allow = sc.knob("allow", 0) == 1;
        let decoded = codec::decode_image(&image, DecodeOptions { allow_ambiguous: allow, apply_journal: true });
        let strict = codec::decode_image(&image, DecodeOptions { allow_ambiguous: false, apply_journal: true });
        let has_ambiguous = strict.as_ref().err().is_some_and(|e| e.contains("ambiguous"));
        if has_ambiguous {
            report.count("images_with_ambiguous_markers", 1);
        }

        // ---- 2. files
        let dir = harness::scratch_dir().join(format!("migr-{}", sc.seed));
        let _ = std::fs::remove_dir_all(&dir);
        std::fs::create_dir_all(&dir).unwrap();
        let src_path = dir.join("source.feox");
        let dst_path = dir.join("dest.feox");
        std::fs::write(&src_path, &image).unwrap();
        let src_file = std::fs::File::open(&src_path).unwrap();
        let src_disk = SimDisk::from_image(sim, src_file.try_clone().unwrap(), image.clone(), "source");
        sim.register_device(&src_file, Arc::clone(&src_disk));
        let existing = sc.knob("existing_dest", 0) == 1;
        let existing_bytes = b"this file was here before the migration and must stay as it is".to_vec();
        if existing {
            std::fs::write(&dst_path, &existing_bytes).unwrap();
        }
        sim.set_default_devices(true);
        let dest_faults = sc.knob("dest_faults", 0) == 1;
        if dest_faults {
            sim.set_default_plan(Some(FaultPlan {
                at_call: vec![(
                    pick.range(0, 40),
                    *pick.pick(&[FaultKind::WriteFailBefore, FaultKind::WriteFailAfter, FaultKind::FsyncFail, FaultKind::FsyncFailAfter, FaultKind::WriteShort, FaultKind::WriteNoSpace]),
                ), (
                    pick.range(0, 40),
                    *pick.pick(&[FaultKind::WriteFailBefore, FaultKind::FsyncFail]),
                )],
                ..FaultPlan::default()
            }));
        }

        // ---- 3. migrate; in some runs somebody else creates the destination while the copy is
        // under way (the simulated devices of the copy are scheduling points): a destination
        // that exists by the time of publication is "an existing destination" all the same
        let intruder_bytes = b"created by somebody else while the migration was running".to_vec();
        let intrude_after_us = sc.knob("intruder_after_us", -1);
        let intruder = (intrude_after_us >= 0 && !existing).then(|| {
            let (sim2, path2, bytes2) = (Arc::clone(sim), dst_path.clone(), intruder_bytes.clone());
            feoxdb::verif::thread::name_next_spawn("intruder");
            feoxdb::verif::thread::spawn(move || {
                sim2.sleep(std::time::Duration::from_micros(intrude_after_us as u64));
                use std::io::Write;
                match std::fs::OpenOptions::new().write(true).create_new(true).open(&path2) {
                    Ok(mut f) => {
                        let _ = f.write_all(&bytes2);
                        true
                    }
                    Err(_) => false,
                }
            })
        });
        let touch_after_us = sc.knob("toucher_after_us", -1);
        let toucher = (touch_after_us >= 0).then(|| {
            let (sim2, path2) = (Arc::clone(sim), src_path.clone());
            feoxdb::verif::thread::name_next_spawn("intruder");
            feoxdb::verif::thread::spawn(move || {
                sim2.sleep(std::time::Duration::from_micros(touch_after_us as u64));
                match std::fs::OpenOptions::new().write(true).open(&path2) {
                    Ok(f) => f.set_modified(std::time::UNIX_EPOCH + std::time::Duration::from_secs(1_234_567)).is_ok(),
                    Err(_) => false,
                }
            })
        });
        sim.op_begin("migrate");
        let result = migrate(MigrationOptions::new(&src_path, &dst_path).allow_ambiguous_legacy_recovery(allow));
        sim.op_end();
        let touched = toucher.map(|h| h.join().unwrap_or(false)).unwrap_or(false);
        if touch_after_us >= 0 {
            report.count(if touched { "source_touched_during_or_after_migration" } else { "source_touch_failed" }, 1);
        }
        let intruded = intruder.map(|h| h.join().unwrap_or(false)).unwrap_or(false);
        if intrude_after_us >= 0 {
            report.count(if intruded { "intruder_created_destination" } else { "intruder_came_too_late" }, 1);
        }
        if intruded {
            // the intruder's file is there: it must survive, and the migration cannot have succeeded
            let now_there = std::fs::read(&dst_path).ok();
            if now_there.as_deref() != Some(&intruder_bytes[..]) {
                report.fail(
                    "existing-destination-overwritten",
                    format!(
                        "a file created at the destination path while migrate() was running was replaced (migrate() returned {}): {} bytes there now",
                        if result.is_ok() { "Ok" } else { "an error" },
                        now_there.map(|b| b.len()).unwrap_or(0)
                    ),
                );
            } else if result.is_ok() {
                report.fail("existing-destination-overwritten", "migrate() returned Ok although the destination path holds somebody else's file".into());
            }
            sim.set_default_devices(false);
            sim.set_default_plan(None);
            report.ops += 1;
            report.nontrivial = true;
            cleanup(sim, &dir);
            return report;
        }
        sim.set_default_devices(false);
        sim.set_default_plan(None);
        let autos = sim.auto_devices();
        let dest_fault_fired: u64 = autos.iter().map(|d| d.stats().faults_fired.values().sum::<u64>()).sum();
        for d in &autos {
            d.materialize();
        }
        report.ops += 1;

        // ---- 4. the source is untouched
        let src_stats = src_disk.stats();
        if src_stats.writes != 0 || src_stats.fsyncs != 0 {
            report.fail("source-written", format!("migrate() issued {} writes / {} fsyncs to the source device", src_stats.writes, src_stats.fsyncs));
        }
        if std::fs::read(&src_path).ok().as_deref() != Some(&image[..]) || src_disk.cache_image() != image {
            report.fail("source-modified", "the source file's bytes changed during migration".into());
        }

        // ---- 5. outcome
        let leftovers: Vec<String> = std::fs::read_dir(&dir)
            .unwrap()
            .filter_map(|e| e.ok())
            .map(|e| e.file_name().to_string_lossy().into_owned())
            .filter(|n| n != "source.feox" && n != "dest.feox")
            .collect();
        if !leftovers.is_empty() {
            report.fail("temporary-left-behind", format!("after migrate() returned, the directory still holds {leftovers:?}"));
        }
        match &result {
            Err(e) => {
                report.count(&format!("migrate_err_{}", err_name(e)), 1);
                if existing {
                    if std::fs::read(&dst_path).ok().as_deref() != Some(&existing_bytes[..]) {
                        report.fail("existing-destination-changed", "an existing destination was modified or removed".into());
                    }
                    if !matches!(e, MigrationError::DestinationExists(_)) {
                        // another error may legitimately come first (e.g. ambiguity); nothing more to check
                    }
                } else if dst_path.exists() {
                    report.fail("destination-left-after-failure", format!("migrate() failed with {e} but something exists at the destination path"));
                }
                // was the failure justified?
                let dir_sync_failed = sim.stats().fail_hits.get("migrate.dir_sync").copied().unwrap_or(0);
                report.count("dir_sync_failures_with_failed_migration", (dir_sync_failed > 0) as u64);
                let justified = existing
                    || touched
                    || dir_sync_failed > 0
                    || (dest_faults && dest_fault_fired > 0)
                    || decoded.is_err()
                    || (has_ambiguous && !allow)
                    || matches!(e, MigrationError::DestinationTooLarge);
                if !justified {
                    report.fail(
                        "migration-failed-without-reason",
                        format!("migrate() failed with {e} although the independent reader accepts the source ({} records) and nothing was injected", decoded.as_ref().map(|d| d.live.len()).unwrap_or(0)),
                    );
                }
                if has_ambiguous && !allow && !existing && !matches!(e, MigrationError::AmbiguousLegacyRecovery) && decoded.is_ok() {
                    report.fail("ambiguity-not-reported", format!("source holds ambiguous legacy markers and the opt-in is off, but migrate() failed with {e} instead of AmbiguousLegacyRecovery"));
                }
            }
            Ok(rep) => {
                report.count("migrate_ok", 1);
                if existing {
                    report.fail("existing-destination-overwritten", "migrate() succeeded although the destination existed".into());
                }
                if has_ambiguous && !allow {
                    report.fail("ambiguity-accepted-silently", "source holds ambiguous legacy deletion markers, the opt-in is off, and migrate() succeeded".into());
                }
                let want = match &decoded {
                    Ok(d) => d,
                    Err(why) => {
                        report.fail("migrated-rejected-source", format!("migrate() succeeded although the independent reader rejects the source: {why}"));
                        cleanup(sim, &dir);
                        return report;
                    }
                };
                match std::fs::read(&dst_path) {
                    Err(e) => report.fail("destination-missing", format!("migrate() returned Ok but the destination cannot be read: {e}")),
                    Ok(bytes) => match codec::decode_image(&bytes, DecodeOptions::default()) {
                        Err(why) => report.fail("destination-rejected", format!("the destination is not a valid v3 image: {why}")),
                        Ok(d) => {
                            if d.version != 3 {
                                report.fail("destination-version", format!("destination has format v{}", d.version));
                            }
                            if d.journal.as_ref().is_some_and(|j| j.active) {
                                report.fail("destination-journal-active", "destination journal is active".into());
                            }
                            for (k, r) in &want.live {
                                match d.live.get(k) {
                                    None => report.fail("migration-lost-key", format!("key {} (ts={}) of the source is missing in the destination", show(k), r.timestamp)),
                                    Some(m) => {
                                        if m.value != r.value || m.timestamp != r.timestamp || m.expiry != r.expiry {
                                            report.fail(
                                                "migration-changed-record",
                                                format!("key {}: source (ts={}, expiry={}, {}B) became (ts={}, expiry={}, {}B)", show(k), r.timestamp, r.expiry, r.value.len(), m.timestamp, m.expiry, m.value.len()),
                                            );
                                        }
                                    }
                                }
                            }
                            for k in d.live.keys() {
                                if !want.live.contains_key(k) {
                                    report.fail("migration-invented-key", format!("destination holds key {} that the source does not", show(k)));
                                }
                            }
                            if rep.records != want.live.len() as u64 || rep.source_version != version || rep.destination_version != 3 {
                                report.fail("migration-report", format!("report says {} records from v{} to v{} but the source holds {} in v{version}", rep.records, rep.source_version, rep.destination_version, want.live.len()));
                            }
                            if want.live.values().any(|r| r.expiry != 0) {
                                report.count("migrated_records_with_expiry", 1);
                            }
                            if !want.stale.is_empty() {
                                report.count("migrated_sources_with_duplicates", 1);
                            }
                        }
                    },
                }
                // everything the destination holds is durable
                // A power loss right after migrate() returned must still leave the right destination:
                // decode the durable image and the image with every unsynced write landed.
                for d in &autos {
                    let capture = d.capture_now();
                    let n = capture.unsynced.len();
                    let mut variants = vec![crate::disk::ImageVariant { landings: vec![crate::disk::Landing::Lost; n], unit: 512, label: "none-landed".into() }];
                    if n > 0 {
                        variants.push(crate::disk::ImageVariant { landings: vec![crate::disk::Landing::Whole; n], unit: 512, label: "all-landed".into() });
                        report.count("destination_with_unsynced_writes", 1);
                    }
                    for v in variants {
                        let img = capture.build(&v);
                        match codec::decode_image(&img, DecodeOptions::default()) {
                            Err(why) => report.fail("destination-not-durable", format!("after a power loss ({}) the published destination is rejected: {why}", v.label)),
                            Ok(dd) => {
                                let same = dd.live.len() == want.live.len()
                                    && want.live.iter().all(|(k, r)| dd.live.get(k).is_some_and(|m| m.value == r.value && m.timestamp == r.timestamp && m.expiry == r.expiry));
                                if !same {
                                    report.fail("destination-not-durable", format!("after a power loss ({}) the published destination holds {} records instead of the {} migrated ones (or they differ): {n} writes were not covered by an fsync", v.label, dd.live.len(), want.live.len()));
                                }
                            }
                        }
                    }
                }
                // cross-check: a TTL-disabled recovery of a copy of the source exposes the same set
                if report.violation.is_none() && !has_ambiguous {
                    let mut cfg = sc.store.clone();
                    cfg.ttl = false;
                    let mut env = Env::new(Arc::clone(sim), cfg, sc.keys.clone(), "srccopy");
                    env.install_image(image.clone());
                    feoxdb::verif::process_restart();
                    match env.open() {
                        Ok(()) => {
                            let got: BTreeMap<Vec<u8>, (u64, u64, usize)> = env.st().verif_hash_keys().into_iter().map(|k| (k.key, (k.timestamp, k.expiry, k.value_len))).collect();
                            let exp: BTreeMap<Vec<u8>, (u64, u64, usize)> = want.live.iter().map(|(k, r)| (k.clone(), (r.timestamp, r.expiry, r.value.len()))).collect();
                            if got != exp {
                                report.fail("recovery-vs-independent-reader", format!("a TTL-disabled recovery of the source exposes {} keys, the independent reader {} (or generations differ)", got.len(), exp.len()));
                            }
                        }
                        Err(e) => report.fail("source-copy-unopenable", format!("a copy of the source cannot be opened read-write: {e:?}")),
                    }
                    env.cleanup();
                }
            }
        }
        report.nontrivial = decoded.as_ref().map(|d| !d.live.is_empty()).unwrap_or(false) || has_ambiguous || existing || dest_fault_fired > 0;
        report.extra_hash = mix(image.len() as u64, result.is_ok() as u64 ^ (dest_fault_fired << 8));
        report.count("dest_faults_fired", dest_fault_fired);
        cleanup(sim, &dir);
        report
    }
}

fn cleanup(sim: &Arc<Sim>, dir: &std::path::Path) {
    let _ = sim;
    let _ = std::fs::remove_dir_all(dir);
}

fn err_name(e: &MigrationError) -> &'static str {
    match e {
        MigrationError::InvalidDestination(_) => "InvalidDestination",
        MigrationError::DestinationExists(_) => "DestinationExists",
        MigrationError::CurrentFormat(_) => "CurrentFormat",
        MigrationError::KeyTooLarge { .. } => "KeyTooLarge",
        MigrationError::DestinationTooLarge => "DestinationTooLarge",
        MigrationError::SourceChanged => "SourceChanged",
        MigrationError::DestinationChanged => "DestinationChanged",
        MigrationError::VerificationFailed(_) => "VerificationFailed",
        MigrationError::AmbiguousLegacyRecovery => "AmbiguousLegacyRecovery",
        MigrationError::Io { .. } => "Io",
        MigrationError::Store(_) => "Store",
    }
}

/// Run the store in v1/v2 compatibility mode and take the resulting image (clean or crashed).
pub fn image_from_workload(sim: &Arc<Sim>, sc: &Scenario, crash: bool, pick: &mut Tape, report: &mut BodyReport) -> Option<Vec<u8>> {
    let mut env = Env::new(Arc::clone(sim), sc.store.clone(), sc.keys.clone(), "legacy");
    env.create_device();
    let disk = env.disk.clone().unwrap();
    if let Err(e) = env.open() {
        report.fail("open-failed", format!("opening a synthesised empty v{} device failed: {e:?}", sc.store.format));
        env.cleanup();
        return None;
    }
    if crash {
        // cut the power inside the workload (often inside a flush batch or a retirement), so that
        // the source carries an active journal / pending retirements
        let at = disk.calls() + pick.range(0, 80);
        disk.set_plan(FaultPlan { crash_at_call: Some(at), ..FaultPlan::default() });
    }
    let mut model: Model = harness::new_model(&sc.store);
    let mut resolver = Resolver { keys: &sc.keys, writer: 0, counter: 0, format: sc.store.format };
    for op in &sc.clients[0] {
        if disk.is_dead() {
            break;
        }
        if let Op::Advance { ns } = op {
            sim.advance(std::time::Duration::from_nanos(*ns));
            continue;
        }
        let now = sim.now_wall();
        let view = |k: &[u8]| -> Option<Gen> { model.map.get(k).cloned() };
        let Some(call) = harness::resolve_call(op, &mut resolver, &view, now, Some(env.st())) else { continue };
        let now0 = sim.now_wall();
        let res = harness::exec_call(env.st(), &call, false);
        let now1 = sim.now_wall();
        if matches!(res, crate::model::Res::Err(crate::model::ErrKind::OutOfSpace)) || disk.is_dead() {
            break;
        }
        let obs = call.key().and_then(|k| env.obs(k));
        if let Err(f) = model.step(&harness::normalise_call(&call), &res, obs.as_ref(), now0, now1) {
            report.fail(f.rule, format!("legacy workload: {}", f.detail));
            env.cleanup();
            return None;
        }
    }
    let image = if crash {
        let capture = disk.take_capture().unwrap_or_else(|| disk.capture_now());
        disk.kill();
        if codec::read_journal(&capture.durable).map(|j| j.active).unwrap_or(false) {
            report.count("source_with_active_journal", 1);
        }
        let family = capture.family(512, 3, true, 2, pick);
        let v = &family[pick.below(family.len() as u32) as usize];
        report.count("source_from_crash_image", 1);
        capture.build(v)
    } else {
        env.close();
        disk.cache_image()
    };
    env.cleanup();
    Some(image)
}

/// A synthesised image of several scan windows (recovery reads the data area in windows of 256
/// blocks): multi-block records, older duplicates, complete / pending / half-written retirement
/// chains and (optionally) an active journal, placed by preference so that they straddle or touch
/// a window boundary or end exactly at the device's last block. Every feature is a state the
/// documented layout allows; the independent decoder says what the image holds.
pub fn synth_scatter(sc: &Scenario, t: &mut Tape, salt: u64) -> Vec<u8> {
    let version = sc.store.format;
    let size = (16 + sc.store.data_blocks as usize) * codec::BLOCK;
    let now = sc.sim.epoch_ns;
    let mut image = codec::empty_image(version, size, now / 1_000_000_000);
    let total = (size / codec::BLOCK) as u64;
    let windows: Vec<u64> = (1..).map(|k| codec::DATA_START + 256 * k).take_while(|b| *b < total).collect();
    let mut occupied: Vec<(u64, u64)> = Vec::new();
    let mut anchor = |t: &mut Tape, blocks: u64| -> Option<u64> {
        for _ in 0..24 {
            let s = match t.below(7) {
                0..=2 if !windows.is_empty() => {
                    // straddling, ending at or starting at a window boundary
                    let b = *t.pick(&windows);
                    (b + 1).saturating_sub(t.below(blocks as u32 + 2) as u64)
                }
                3 | 4 => total.saturating_sub(blocks + t.below(3) as u64), // against the device's end
                5 => codec::DATA_START + t.below(4) as u64,
                _ => codec::DATA_START + t.below((total - codec::DATA_START) as u32) as u64,
            };
            if s < codec::DATA_START || s + blocks > total {
                continue;
            }
            if occupied.iter().any(|(a, n)| s < a + n && *a < s + blocks) {
                continue;
            }
            occupied.push((s, blocks));
            return Some(s);
        }
        None
    };
    let key_of = |i: usize| -> Vec<u8> {
        if i < sc.keys.len() {
            sc.keys[i].clone()
        } else {
            format!("scatter:{i:03}").into_bytes()
        }
    };
    let value_for = |t: &mut Tape, key: &[u8], want_blocks: u64, id: usize, gen: u32| -> Vec<u8> {
        let hlen = codec::header_len(version, key.len());
        let len = if want_blocks <= 1 {
            1 + t.below((codec::BLOCK - hlen - 1).min(3000) as u32) as usize
        } else {
            // the last block holds between 1 byte and a full block
            (want_blocks as usize - 1) * codec::BLOCK - hlen + 1 + t.below(codec::BLOCK as u32 - 1) as usize
        };
        harness::plain_value(id % 250, 9, gen.wrapping_add((salt & 0xffff) as u32), len)
    };
    let n = 3 + t.below(8) as usize;
    let mut placed: Vec<(Vec<u8>, u64)> = Vec::new();
    let giant = sc.knob("synth_giant", 0);
    if giant > 0 {
        // a value at the size limit (or just below it), under a key that sorts in the middle
        let len = match giant {
            1 => codec::MAX_VALUE,
            2 => codec::MAX_VALUE - 1,
            3 => codec::MAX_VALUE - codec::BLOCK + 17,
            _ => codec::MAX_VALUE - 40,
        };
        let key = b"m:giant".to_vec();
        let value = harness::plain_value(123, 9, 77, len);
        let blocks = codec::extent_blocks(version, key.len(), value.len());
        if let Some(s) = anchor(t, blocks) {
            codec::put_record(&mut image, version, s, &key, &value, now - 2_000_000, 0);
            placed.push((key, now - 2_000_000));
        }
    }
    for i in 0..n {
        let key = key_of(i);
        let want = *t.pick(&[1u64, 1, 2, 3, 3, 4, 5, 7]);
        let value = value_for(t, &key, want, i, 1);
        let blocks = codec::extent_blocks(version, key.len(), value.len());
        let Some(s) = anchor(t, blocks) else { continue };
        let ts = now - 1_000_000 + i as u64;
        let expiry = if version >= 2 && t.chance(1, 5) { now + 3_600_000_000_000 } else { 0 };
        codec::put_record(&mut image, version, s, &key, &value, ts, expiry);
        placed.push((key, ts));
    }
    // older generations of keys that are there (what a crash before the retirement leaves)
    for d in 0..t.below(3) as usize {
        if placed.is_empty() {
            break;
        }
        let (key, ts) = placed[t.below(placed.len() as u32) as usize].clone();
        let want = *t.pick(&[1u64, 2, 3, 4]);
        let value = value_for(t, &key, want, 200 + d, 2);
        let blocks = codec::extent_blocks(version, key.len(), value.len());
        let Some(s) = anchor(t, blocks) else { continue };
        codec::put_record(&mut image, version, s, &key, &value, ts - 1 - d as u64, 0);
    }
    // retirement chains: complete, pending (every block says so), or a complete head over tails that
    // still hold what was there before (a retirement cut short)
    for _ in 0..t.below(4) {
        let blocks = *t.pick(&[1u64, 2, 3, 5, 6, 9]);
        let Some(s) = anchor(t, blocks) else { continue };
        let at = s as usize * codec::BLOCK;
        match t.below(3) {
            0 => {
                let m = codec::encode_retirement(s, blocks, true);
                image[at..at + m.len()].copy_from_slice(&m);
            }
            1 => {
                let m = codec::encode_retirement(s, blocks, false);
                image[at..at + m.len()].copy_from_slice(&m);
            }
            _ => {
                let junk = harness::plain_value(99, 3, s as u32, blocks as usize * codec::BLOCK);
                image[at..at + junk.len()].copy_from_slice(&junk);
                // make sure no tail block reads as a record head or a marker
                for b in 0..blocks as usize {
                    image[at + b * codec::BLOCK] = 0x11;
                    image[at + b * codec::BLOCK + 1] = 0x11;
                }
                let m = codec::encode_retirement_block(s, blocks, t.chance(1, 2));
                image[at..at + codec::BLOCK].copy_from_slice(&m);
            }
        }
    }
    // an active allocation journal over extents that were being written when the power went:
    // whatever they hold is not part of the contents
    if t.chance(1, 4) {
        let mut extents = Vec::new();
        for j in 0..1 + t.below(3) {
            let blocks = *t.pick(&[1u64, 2, 4, 6]);
            let Some(s) = anchor(t, blocks) else { continue };
            if t.chance(1, 2) {
                // a record that made it to the device completely although the batch did not commit
                let key = format!("uncommitted:{j}").into_bytes();
                let value = value_for(t, &key, blocks, 150 + j as usize, 3);
                if codec::extent_blocks(version, key.len(), value.len()) == blocks {
                    codec::put_record(&mut image, version, s, &key, &value, now + 10 + j as u64, 0);
                }
            }
            extents.push((s, blocks));
        }
        if !extents.is_empty() {
            extents.sort_unstable();
            let j = codec::encode_journal(5, &extents);
            let at = codec::JOURNAL_START as usize * codec::BLOCK;
            image[at..at + j.len()].copy_from_slice(&j);
        }
    }
    image
}

/// Build a legacy image directly: records, duplicates, expired winners, multi-block records,
/// legacy (ambiguous) and new-style retirement markers.
fn synth_image(sc: &Scenario, t: &mut Tape) -> Vec<u8> {
    let version = sc.store.format;
    let size = (16 + sc.store.data_blocks as usize) * codec::BLOCK;
    let now = sc.sim.epoch_ns;
    let mut image = codec::empty_image(version, size, now / 1_000_000_000);
    let total = (size / codec::BLOCK) as u64;
    let mut sector = codec::DATA_START;
    let n = sc.knob("synth_records", 4) as usize;
    let mut place = |image: &mut Vec<u8>, sector: &mut u64, key: &[u8], value: &[u8], ts: u64, expiry: u64| -> bool {
        let blocks = codec::extent_blocks(version, key.len(), value.len());
        if *sector + blocks + 1 > total {
            return false;
        }
        codec::put_record(image, version, *sector, key, value, ts, if version >= 2 { expiry } else { 0 });
        *sector += blocks;
        true
    };
    let key_of = |i: usize| -> Vec<u8> {
        if i < sc.keys.len() {
            sc.keys[i].clone()
        } else {
            format!("synth:{i:05}").into_bytes()
        }
    };
    for i in 0..n {
        let key = key_of(i);
        let len = if n > 50 { 1 + t.below(60) as usize } else { gen_len(t, 4) };
        let value = harness::plain_value(i % 250, 7, i as u32, len);
        let expiry = if version >= 2 && t.chance(1, 4) { now + 3_600_000_000_000 } else { 0 };
        if t.chance(1, 5) {
            sector += t.below(3) as u64; // a gap of never-used blocks
        }
        if !place(&mut image, &mut sector, &key, &value, now - 1_000_000 + i as u64, expiry) {
            break;
        }
    }
    // duplicates: an older and a newer generation of the same key, in either order on disk
    for d in 0..sc.knob("synth_dups", 0) as usize {
        let key = key_of(d % n.max(1));
        let value = harness::plain_value(d, 6, 1000 + d as u32, 30 + t.below(5000) as usize);
        // older, newer, or carrying exactly the timestamp of the generation it duplicates (what a
        // delete + re-insert with an explicit timestamp leaves when the crash comes before the
        // retirement): the later extent wins, as in an ordinary recovery
        let ts = match t.below(3) {
            0 => now - 2_000_000,
            1 => now + 5 + d as u64,
            _ => now - 1_000_000 + (d % n.max(1)) as u64,
        };
        if !place(&mut image, &mut sector, &key, &value, ts, 0) {
            break;
        }
    }
    if sc.knob("synth_expired_winner", 0) == 1 && version >= 2 {
        // newest generation already expired, an older one without expiry: the old value must not come back
        let key = b"expired:winner".to_vec();
        let old = harness::plain_value(77, 5, 1, 100);
        let new = harness::plain_value(77, 5, 2, 120);
        let order = t.chance(1, 2);
        let (first, second) = if order {
            ((&old, now - 9_000_000_000u64, 0u64), (&new, now - 5_000_000_000, now - 1_000_000_000))
        } else {
            ((&new, now - 5_000_000_000, now - 1_000_000_000), (&old, now - 9_000_000_000, 0))
        };
        let _ = place(&mut image, &mut sector, &key, first.0, first.1, first.2) && place(&mut image, &mut sector, &key, second.0, second.1, second.2);
    }
    for _ in 0..sc.knob("synth_new_markers", 0) {
        let blocks = 1 + t.below(3) as u64;
        if sector + blocks + 1 > total {
            break;
        }
        let m = codec::encode_retirement(sector, blocks, true);
        let at = sector as usize * codec::BLOCK;
        image[at..at + m.len()].copy_from_slice(&m);
        sector += blocks;
    }
    for _ in 0..sc.knob("synth_legacy_markers", 0) {
        if sector + 3 > total {
            break;
        }
        let at = sector as usize * codec::BLOCK;
        image[at..at + codec::BLOCK].copy_from_slice(&codec::encode_legacy_marker());
        sector += 1;
        if t.chance(1, 2) {
            // what a released multi-sector record leaves behind its marker: a continuation block
            // that happens to look like a record head
            let ghost = codec::encode_record(version, sector, &harness::ghost_key(sector), b"continuation-bytes", now, 0);
            let at = sector as usize * codec::BLOCK;
            image[at..at + codec::BLOCK].copy_from_slice(&ghost[..codec::BLOCK]);
            sector += 1;
        }
    }
    image
}
