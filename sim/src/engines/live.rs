//! `live`: nobody calls flush(). Bounded write-behind under virtual time for every
//! shards x workers configuration; retirement of superseded generations; long-uptime variant
//! where the window of data at risk must not grow. Serves C19 (and a C18 stage).

use std::collections::BTreeMap;
use std::sync::{Arc, Mutex};
use std::time::Duration;

use feoxdb::FeoxStore;

use crate::checks;
use crate::codec::{self, DecodeOptions};
use crate::harness::{self, Env};
use crate::model::Gen;
use crate::runner::{BodyReport, Engine};
use crate::scenario::*;
use crate::sched::{Sim, SimConfig, Strategy};
use crate::tape::{mix, Tape};

pub struct LiveEngine;

/// Virtual time after which an accepted modification must be durable.
const DURABLE_BOUND_NS: u64 = 1_000_000_000;
/// Virtual time after which superseded generations must be retired and their blocks free.
const RETIRE_BOUND_NS: u64 = 2_000_000_000;

#[derive(Clone)]
struct Change {
    at: u64,
    key: Vec<u8>,
    state: Option<Gen>,
}

fn show(k: &[u8]) -> String {
    String::from_utf8_lossy(&k[..k.len().min(24)]).into_owned()
}

impl Engine for LiveEngine {
    fn name(&self) -> &'static str {
        "live"
    }

    fn nontrivial_rule(&self, _property: &str) -> String {
        "run made >= 1 modification without any flush() and checked the durable image at the bound; distinct = distinct hash of (configuration incl. shards x workers, workload, schedule)".into()
    }

    fn generate(&self, property: &str, seed: u64, tier: &str) -> Scenario {
        let mut c = Tape::fresh(mix(seed, 0xC0F6));
        let mut w = Tape::fresh(mix(seed, 0x3017));
        let shards = 1 + c.below(8) as usize;
        let workers = 1 + c.below(8) as usize; // clamped to shards by the store
        let n_clients = 1 + c.below(4) as usize;
        let n_keys = (shards * 2 + c.below(6) as usize).max(2);
        let keys: Vec<Vec<u8>> = (0..n_keys).map(|i| format!("lk{i:03}").into_bytes()).collect();
        let steady = c.chance(1, 4);
        let burst = !steady && c.chance(1, 5);
        // one client overwrites the same key back to back for more than the bound
        let hot = !steady && !burst && c.chance(1, 4);
        // hot runs: one worker; in half of them it owns several shards, so that the other
        // clients' keys sit in sibling shards of the busy one and must not starve behind it
        let (shards, workers) = if hot { (if c.chance(1, 2) { 1 } else { 2 + c.below(3) as usize }, 1) } else { (shards, workers) };
        // late-failure burst (own tape): one client fills one shard to just its limit (1024
        // entries) and stops; the passes that the writers' own triggers start all fail (nine
        // record-write attempts = three passes, each puts a full shard's worth of entries back),
        // then the device is healthy - only the periodic timer is left to get the shard flushed
        let mut bt = Tape::fresh(mix(seed, 0xB7A5));
        let burst_transient = burst && bt.chance(1, 3);
        let (shards, workers, n_clients) = if burst_transient { (1, 1, 1) } else { (shards, workers, n_clients) };
        let (n_keys, keys) = if burst_transient { (1030, (0..1030).map(|i| format!("lk{i:04}").into_bytes()).collect()) } else { (n_keys, keys) };
        let sim = SimConfig {
            strategy: if hot {
                // the flusher (thread 1) is held back after every drain, see hold_sites below
                Strategy::Starve(1)
            } else {
                match c.below(3) {
                    0 => Strategy::Random,
                    1 => Strategy::Sticky(*c.pick(&[50u32, 200])),
                    _ => Strategy::Pct(1 + c.below(3)),
                }
            },
            tick_ns: if hot { *c.pick(&[100_000u64, 200_000]) } else { *c.pick(&[0u64, 50, 200]) },
            shards,
            workers,
            hash_seed: c.u64(),
            max_steps: 3_000_000,
            // hot-key runs: the flusher is held after every drain until the writer has replaced
            // the newest drained generation again - every generation it looks at is stale
            hold_sites: if hot { vec!["wb.after_drain".to_string()] } else { Vec::new() },
            hold_steps: if hot { 16 } else { 0 },
            ..SimConfig::default()
        };
        let store = StoreCfg {
            persistent: true,
            format: *c.pick(&[3u32, 3, 2]),
            cache: c.chance(1, 2),
            ttl: c.chance(1, 3),
            hash_bits: 4 + c.below(5),
            data_blocks: if burst { 2600 } else { *c.pick(&[64u64, 128, 256]) },
            max_memory: None,
            sweeper: None,
            create_empty_file: false,
            allow_ambiguous: false,
            ring: gen_ring(seed),
        };
        let mut clients = Vec::new();
        for ci in 0..n_clients {
            let mine: Vec<usize> = (0..n_keys).filter(|k| k % n_clients == ci).collect();
            if mine.is_empty() {
                clients.push(Vec::new());
                continue;
            }
            let mut ops = Vec::new();
            let n_ops = if steady {
                if tier == "thorough" { 600 } else { 200 }
            } else if hot {
                if ci == 0 { 9000 } else { 4 }
            } else if burst_transient {
                1024 + bt.below(4) as usize
            } else if burst {
                1100 + w.below(600) as usize
            } else {
                3 + w.below(30) as usize
            };
            for oi in 0..n_ops {
                // late-failure burst: every entry a key of its own (entries of one key coalesce)
                let key = if hot && ci == 0 { mine[0] } else if burst_transient { mine[oi % mine.len()] } else { mine[w.below(mine.len() as u32) as usize] };
                let op = match w.below(10) {
                    _ if hot && ci == 0 => Op::Insert { key, val: Val { len: 24, kind: ValKind::Plain }, ts: Ts::Auto, ttl: 0, bytes: false },
                    0 | 1 if !burst => Op::Delete { key, ts: Ts::Auto },
                    2 if store.ttl && !burst => Op::Insert { key, val: Val { len: 40, kind: ValKind::Plain }, ts: Ts::Auto, ttl: 3600, bytes: false },
                    3 if !burst => Op::Incr { key, delta: 1, ts: Ts::Auto, ttl: 0 },
                    _ => Op::Insert {
                        key,
                        val: Val { len: if burst { 1 } else { gen_len(&mut w, 3) }, kind: ValKind::Plain },
                        ts: Ts::Auto,
                        ttl: 0,
                        bytes: w.chance(1, 2),
                    },
                };
                if hot && ci != 0 {
                    // neighbours of the hot key write while it is busy, not only before
                    ops.push(Op::Advance { ns: *w.pick(&[150_000_000u64, 400_000_000, 900_000_000]) });
                }
                ops.push(op);
                if steady {
                    ops.push(Op::Advance { ns: *w.pick(&[20_000_000u64, 100_000_000, 310_000_000]) });
                } else if !burst && !(hot && ci == 0) && w.chance(1, 6) {
                    ops.push(Op::Advance { ns: *w.pick(&[1_000_000u64, 40_000_000, 130_000_000]) });
                }
            }
            clients.push(ops);
        }
        // slow-reader family (decided from a tape of its own so that the other families keep
        // their seeds): a reader is parked between its extent pin and the end of its device read
        // while the key is overwritten and flushed; the retirement the flusher has to postpone
        // must still happen within the bound once the reader has left
        let mut r = Tape::fresh(mix(seed, 0x51EAD));
        let slow_reader = !burst_transient && r.chance(1, 6);
        let (sim, store, keys, clients) = if slow_reader {
            let sim = SimConfig {
                strategy: Strategy::Starve(3), // thread 3 = first client (root, worker, coordinator before it)
                // "after_sector_load": the extent is pinned and not yet read; "read.before_pin": the
                // record is resolved but not yet pinned (the retirement goes ahead, the read turns stale)
                hold_sites: vec![if r.chance(2, 3) { "after_sector_load".to_string() } else { "read.before_pin".to_string() }],
                hold_steps: *r.pick(&[150u64, 400, 1200]),
                hold_through_idle: true,
                tick_ns: *r.pick(&[20_000u64, 100_000]),
                shards: 1,
                workers: 1,
                hash_seed: r.u64(),
                max_steps: 3_000_000,
                ..SimConfig::default()
            };
            let store = StoreCfg { cache: false, ttl: false, data_blocks: 128, format: *r.pick(&[3u32, 3, 2]), ..store };
            let keys: Vec<Vec<u8>> = (0..4).map(|i| format!("lk{i:03}").into_bytes()).collect();
            let big = 3000 + r.below(9000) as usize;
            let reader = vec![
                Op::Insert { key: 0, val: Val { len: big, kind: ValKind::Plain }, ts: Ts::Auto, ttl: 0, bytes: r.chance(1, 2) },
                Op::Advance { ns: 400_000_000 },
                Op::Get { key: 0, bytes: r.chance(1, 2) },
                Op::Get { key: 0, bytes: false },
            ];
            let mut writer = vec![Op::Advance { ns: 400_000_000 + r.below(3) as u64 * 10_000_000 }];
            let rounds = 40 + r.below(80);
            for i in 0..rounds {
                let key = if i % 7 == 0 { 0 } else { 1 + (i as usize % 3) };
                writer.push(if i % 11 == 5 {
                    Op::Delete { key, ts: Ts::Auto }
                } else {
                    Op::Insert { key, val: Val { len: gen_len(&mut r, 3), kind: ValKind::Plain }, ts: Ts::Auto, ttl: 0, bytes: r.chance(1, 2) }
                });
                writer.push(Op::Advance { ns: *r.pick(&[5_000_000u64, 20_000_000, 40_000_000]) });
            }
            (sim, store, keys, vec![reader, writer])
        } else {
            (sim, store, keys, clients)
        };
        // swept family (own tape): keys with a one-second TTL are flushed, expire and are removed
        // from memory by the background sweeper; their extents must be retired on the device too
        let mut sw = Tape::fresh(mix(seed, 0x5EE9));
        let swept = !slow_reader && !burst_transient && sw.chance(1, 6);
        let (sim, store, clients) = if swept {
            let sim = SimConfig {
                strategy: match sw.below(3) {
                    0 => Strategy::Random,
                    1 => Strategy::Sticky(100),
                    _ => Strategy::Pct(2),
                },
                tick_ns: *sw.pick(&[0u64, 50, 200]),
                ..sim
            };
            let store = StoreCfg {
                ttl: true,
                format: *sw.pick(&[3u32, 3, 2]),
                data_blocks: 256,
                sweeper: Some(SweeperCfg { interval_ms: *sw.pick(&[10u64, 50, 100]), sample_size: 4 + sw.below(20) as usize }),
                ..store
            };
            let n_clients = 1 + sw.below(3) as usize;
            let mut clients = Vec::new();
            for ci in 0..n_clients {
                let mine: Vec<usize> = (0..keys.len()).filter(|k| k % n_clients == ci).collect();
                let mut ops = Vec::new();
                for key in mine {
                    ops.push(Op::Insert { key, val: Val { len: gen_len(&mut sw, 3), kind: ValKind::Plain }, ts: Ts::Auto, ttl: if sw.chance(4, 5) { 1 } else { 0 }, bytes: sw.chance(1, 2) });
                    if sw.chance(1, 3) {
                        ops.push(Op::Advance { ns: *sw.pick(&[1_000_000u64, 40_000_000, 130_000_000]) });
                    }
                }
                clients.push(ops);
            }
            (sim, store, clients)
        } else {
            (sim, store, clients)
        };
        // full-then-delete family (own tape): the records of one shard fill the data area exactly;
        // one more record cannot be written (every periodic pass ends in OutOfSpace and the entry
        // stays buffered, legitimately); then a key of the same shard is deleted - the delete, the
        // retirement that frees its blocks and the waiting record must all reach the device within
        // the bound after the delete, without flush()
        let mut fu = Tape::fresh(mix(seed, 0xF011));
        let full_then_delete = !slow_reader && !swept && !steady && !burst && !hot && fu.chance(1, 8);
        let (sim, store, keys, clients) = if full_then_delete {
            let n = 3 + fu.below(3) as usize;
            let sizes: Vec<usize> = (0..n).map(|_| 1 + fu.below(3) as usize).collect();
            let keys: Vec<Vec<u8>> = (0..=n).map(|i| format!("fk{i:02}").into_bytes()).collect();
            let len_for = |blocks: usize, salt: usize| blocks * 4096 - 400 - salt % 150;
            let mut ops: Vec<Op> = Vec::new();
            for (key, b) in sizes.iter().enumerate() {
                ops.push(Op::Insert { key, val: Val { len: len_for(*b, key), kind: ValKind::Plain }, ts: Ts::Auto, ttl: 0, bytes: false });
            }
            ops.push(Op::Advance { ns: 400_000_000 + fu.below(200) as u64 * 1_000_000 });
            let victim = fu.below(n as u32) as usize;
            ops.push(Op::Insert { key: n, val: Val { len: len_for(sizes[victim], 77), kind: ValKind::Plain }, ts: Ts::Auto, ttl: 0, bytes: false });
            ops.push(Op::Advance { ns: 250_000_000 + fu.below(500) as u64 * 1_000_000 });
            ops.push(Op::Delete { key: victim, ts: Ts::Auto });
            (
                SimConfig { shards: 1, workers: 1, ..sim },
                StoreCfg { data_blocks: sizes.iter().sum::<usize>() as u64, ttl: false, ..store },
                keys,
                vec![ops],
            )
        } else {
            (sim, store, keys, clients)
        };
        // transient family (own tape): the first three record-write attempts of the run fail (the
        // flusher gives one batch up after three attempts), then the device is healthy again; what
        // was given up must be retried by the periodic trigger, without any further write and
        // without flush()
        let mut tr = Tape::fresh(mix(seed, 0x7A45));
        let transient = burst_transient || (!slow_reader && !swept && !steady && !burst && !hot && !full_then_delete && tr.chance(1, 4));
        let mut sim = sim;
        if transient {
            sim.buggify.insert("record_write".into(), 1000);
            sim.buggify_limits.insert("record_write".into(), if burst_transient { 9 } else { 3 * (1 + tr.below(2)) });
        }
        let mut knobs = BTreeMap::new();
        knobs.insert("transient".into(), transient as i64);
        knobs.insert("burst_transient".into(), burst_transient as i64);
        knobs.insert("full_then_delete".into(), full_then_delete as i64);
        knobs.insert("swept".into(), swept as i64);
        knobs.insert("slow_reader".into(), slow_reader as i64);
        knobs.insert("steady".into(), (steady && !slow_reader && !swept) as i64);
        knobs.insert("burst".into(), (burst && !slow_reader && !swept) as i64);
        knobs.insert("hot".into(), (hot && !slow_reader && !swept) as i64);
        let _ = property;
        Scenario {
            engine: "live".into(),
            property: property.into(),
            seed,
            sim,
            store,
            keys,
            clients,
            faults: Default::default(),
            knobs,
        }
    }

    fn body(&self, sim: &Arc<Sim>, sc: &Scenario) -> BodyReport {
        let mut report = BodyReport::default();
        let mut env = Env::new(Arc::clone(sim), sc.store.clone(), sc.keys.clone(), "live");
        env.create_device();
        if let Err(e) = env.open() {
            report.fail("open-failed", format!("{e:?}"));
            env.cleanup();
            return report;
        }
        let store = Arc::clone(env.st());
        let disk = env.disk.clone().unwrap();
        if sc.knob("transient", 0) == 1 {
            report.count("transient_failure_runs", 1);
        }
        if sc.knob("burst_transient", 0) == 1 {
            report.count("late_failure_burst_runs", 1);
        }
        if sc.knob("full_then_delete", 0) == 1 {
            report.count("full_then_delete_runs", 1);
        }
        let outage_end = 0u64;
        report.count(&format!("cfg.shards{}_workers{}", store.verif_shard_counts().len(), store.verif_worker_count()), 1);
        let changes: Arc<Mutex<Vec<Change>>> = Arc::new(Mutex::new(Vec::new()));
        let done: Arc<Mutex<usize>> = Arc::new(Mutex::new(0));
        // (instant the last read returned, reads done, first read failure, stale-extent answers)
        let reads: Arc<Mutex<(u64, u64, Option<String>, u64)>> = Arc::new(Mutex::new((0, 0, None, 0)));
        let mut handles = Vec::new();
        for (ci, ops) in sc.clients.iter().enumerate() {
            let (sim2, store2, keys2, ops2, ch2, done2, cfg2, reads2) = (
                Arc::clone(sim),
                Arc::clone(&store),
                sc.keys.clone(),
                ops.clone(),
                Arc::clone(&changes),
                Arc::clone(&done),
                sc.store.clone(),
                Arc::clone(&reads),
            );
            feoxdb::verif::thread::name_next_spawn("client");
            handles.push(feoxdb::verif::thread::spawn(move || {
                client(&sim2, &store2, &cfg2, &keys2, &ops2, ci as u8, &ch2, &reads2);
                *done2.lock().unwrap() += 1;
            }));
        }
        let n_clients = sc.clients.len();
        let steady = sc.knob("steady", 0) == 1 || sc.knob("hot", 0) == 1;
        if sc.knob("hot", 0) == 1 {
            report.count("hot_key_runs", 1);
        }
        let mut periodic_checks = 0u64;
        // while the clients run: every virtual second, whatever is older than the bound must be durable
        loop {
            if *done.lock().unwrap() == n_clients {
                break;
            }
            sim.sleep(Duration::from_millis(if steady { 1000 } else { 250 }));
            if steady {
                let now = sim.now_mono();
                let log = changes.lock().unwrap().clone();
                // the slowed-down flusher of the hot-key runs gets three bounds
                let bound = if sc.knob("hot", 0) == 1 { 3 * DURABLE_BOUND_NS } else { DURABLE_BOUND_NS };
                if let Err((rule, detail)) = check_durable_upto(&disk, &log, now.saturating_sub(bound), now, sc.store.ttl, sim.now_wall(), &[]) {
                    report.fail(&rule, detail);
                    break;
                }
                periodic_checks += 1;
                if std::env::var("SIMCHECK_DEBUG").is_ok() {
                    eprintln!("periodic check at {} ms: {} changes logged, writes_flushed={} hot={}", (now - sc.sim.epoch_ns) / 1_000_000, log.len(), store.stats().writes_flushed, sc.knob("hot", 0));
                    if let Ok(d) = codec::decode_image(&disk.durable_image(), DecodeOptions::default()) {
                        eprintln!(
                            "   image: live {:?} stale {:?}; buffered {:?} retirements {:?} hot key in memory {:?}",
                            d.live.iter().map(|(k, r)| (show(k), r.timestamp % 100_000_000_000, r.sector)).collect::<Vec<_>>(),
                            d.stale.iter().map(|(k, ts, s, n)| (show(k), *ts % 100_000_000_000, *s, *n)).collect::<Vec<_>>(),
                            store.verif_shard_counts(),
                            store.verif_retirements_pending(),
                            store.verif_key(&sc.keys[0]).map(|v| (v.timestamp % 100_000_000_000, v.sector, v.refcount)),
                        );
                    }
                }
            }
        }
        for h in handles {
            let _ = h.join();
        }
        let log = changes.lock().unwrap().clone();
        report.ops = log.len() as u64;
        let (last_read_done, reads_done, read_failure, stale_answers) = reads.lock().unwrap().clone();
        if sc.knob("slow_reader", 0) == 1 {
            report.count("slow_reader_runs", 1);
            report.count("slow_reader_reads", reads_done);
            report.count("slow_reader_stale_extent_answers", stale_answers);
        }
        if let Some(why) = read_failure {
            report.fail("read-error", why);
        }
        report.count("periodic_window_checks", periodic_checks);
        let shards_hit: std::collections::BTreeSet<usize> = log.iter().filter_map(|c| store.verif_shard_of(&c.key)).collect();
        report.count("shards_receiving_entries", shards_hit.len() as u64);
        report.count("shards_total", store.verif_shard_counts().len() as u64);
        if report.violation.is_none() && !log.is_empty() {
            // (a device outage postpones the bound to the moment the device works again)
            let t_last = log.iter().map(|c| c.at).max().unwrap().max(outage_end);
            // (1) one bound after the last modification everything is durable
            let wait = (t_last + DURABLE_BOUND_NS).saturating_sub(sim.now_mono());
            sim.sleep(Duration::from_nanos(wait));
            let now = sim.now_mono();
            // keys a reader may still be reading one bound after the last modification
            let reader_busy = last_read_done + DURABLE_BOUND_NS > now || *done.lock().unwrap() < n_clients;
            let pinned: Vec<Vec<u8>> = if sc.knob("slow_reader", 0) == 1 && reader_busy { vec![sc.keys[0].clone()] } else { Vec::new() };
            if let Err((rule, detail)) = check_durable_upto(&disk, &log, t_last, now, sc.store.ttl, sim.now_wall(), &pinned) {
                report.fail(&rule, detail);
            } else if !pinned.is_empty() {
                report.count("durable_bound_checks_with_reader_inside", 1);
                // one bound after the reader left nothing is excused any more
                let wait = (last_read_done + DURABLE_BOUND_NS).saturating_sub(sim.now_mono());
                sim.sleep(Duration::from_nanos(wait));
                if let Err((rule, detail)) = check_durable_upto(&disk, &log, t_last, sim.now_mono(), sc.store.ttl, sim.now_wall(), &[]) {
                    report.fail(&rule, format!("(one bound after the last reader left) {detail}"));
                }
            } else {
                report.count("durable_bound_checks", 1);
                // the same image recovers in a fresh handle to the final state
                if let Err((rule, detail)) = check_recovers(sim, sc, &disk, &log) {
                    report.fail(&rule, detail);
                }
            }
        }
        if report.violation.is_none() && !log.is_empty() && sc.knob("swept", 0) == 0 {
            // (2) after the retirement bound nothing superseded is left behind (runs with the
            // sweeper keep producing retirements around this instant: they are judged by (3))
            // a reader may hold an extent for as long as its read takes: the bound runs from the
            // later of the last modification and the return of the last read
            let t_last = log.iter().map(|c| c.at).max().unwrap().max(last_read_done).max(outage_end);
            let wait = (t_last + RETIRE_BOUND_NS).saturating_sub(sim.now_mono());
            sim.sleep(Duration::from_nanos(wait));
            let pending = store.verif_retirements_pending();
            let buffered: usize = store.verif_shard_counts().iter().sum();
            if cannot_fit(disk.durable_image().len(), &log) {
                report.count("device_cannot_hold_final_state", 1);
            } else if pending != Some(0) || buffered != 0 {
                report.fail(
                    "retirement-not-bounded",
                    format!(
                        "{} virtual ms after the last modification the retirement queue holds {pending:?} entries and {buffered} entries are still buffered",
                        RETIRE_BOUND_NS / 1_000_000
                    ),
                );
            } else {
                match checks::check_partition(&env) {
                    Ok(_) => report.count("partition_checks", 1),
                    Err(f) => report.fail(f.rule, format!("after the retirement bound: {}", f.detail)),
                }
                let image = disk.durable_image();
                match codec::decode_image(&image, DecodeOptions::default()) {
                    Ok(d) => {
                        if !d.stale.is_empty() {
                            report.fail(
                                "stale-generation-not-retired",
                                format!("after the retirement bound the durable image still holds superseded generations {:?}", d.stale.iter().map(|(k, ts, s, n)| (show(k), *ts, *s, *n)).collect::<Vec<_>>()),
                            );
                        }
                    }
                    Err(why) => report.fail("image-rejected", format!("durable image rejected by the independent reader: {why}")),
                }
            }
        }
        if report.violation.is_none() && sc.knob("swept", 0) == 1 && !log.is_empty() {
            // (3) what the sweeper has removed from memory is retired on the device within the bound
            let t_last = log.iter().map(|c| c.at).max().unwrap();
            let wait = (t_last + 1_600_000_000).saturating_sub(sim.now_mono());
            sim.sleep(Duration::from_nanos(wait));
            let swept_now: Vec<Vec<u8>> = log
                .iter()
                .filter(|c| c.state.as_ref().is_some_and(|g| g.expiry != 0))
                .map(|c| c.key.clone())
                .filter(|k| store.verif_key(k).is_none())
                .collect::<std::collections::BTreeSet<_>>()
                .into_iter()
                .collect();
            sim.sleep(Duration::from_nanos(RETIRE_BOUND_NS));
            report.count("swept_runs", 1);
            if std::env::var("SIMCHECK_DEBUG").is_ok() {
                let d = codec::decode_image(&disk.durable_image(), DecodeOptions::default());
                eprintln!(
                    "swept: {:?} | memory {:?} | image live {:?}",
                    swept_now.iter().map(|k| show(k)).collect::<Vec<_>>(),
                    store.verif_hash_keys().iter().map(|k| (show(&k.key), k.expiry % 100_000_000_000, k.sector)).collect::<Vec<_>>(),
                    d.map(|d| d.live.iter().map(|(k, r)| (show(k), r.expiry % 100_000_000_000, r.sector)).collect::<Vec<_>>())
                );
            }
            report.count("swept_keys_seen", swept_now.len() as u64);
            match codec::decode_image(&disk.durable_image(), DecodeOptions::default()) {
                Ok(d) => {
                    for k in &swept_now {
                        if let Some(r) = d.live.get(k) {
                            report.fail(
                                "swept-generation-not-retired",
                                format!(
                                    "key {}: removed from memory by the sweeper more than {} virtual ms ago, but the durable image still holds its generation (ts={}, expiry={}) at sector {}",
                                    show(k),
                                    RETIRE_BOUND_NS / 1_000_000,
                                    r.timestamp,
                                    r.expiry,
                                    r.sector
                                ),
                            );
                            break;
                        }
                    }
                }
                Err(why) => report.fail("image-rejected", format!("durable image rejected by the independent reader: {why}")),
            }
            if report.violation.is_none() {
                if let Err(f) = checks::check_partition(&env) {
                    // the sweeper may be mid-removal: the partition has to hold once it is quiet
                    sim.sleep(Duration::from_millis(500));
                    if checks::check_partition(&env).is_err() {
                        report.fail(f.rule, format!("after the sweeper retired expired keys: {}", f.detail));
                    }
                }
            }
        }
        report.nontrivial = !log.is_empty();
        report.extra_hash = mix(log.len() as u64, store.verif_worker_count() as u64);
        report.disk = disk.stats();
        drop(store);
        env.cleanup();
        report
    }
}

#[allow(clippy::too_many_arguments)]
fn client(
    sim: &Arc<Sim>,
    store: &FeoxStore,
    cfg: &StoreCfg,
    keys: &[Vec<u8>],
    ops: &[Op],
    writer: u8,
    changes: &Mutex<Vec<Change>>,
    reads: &Mutex<(u64, u64, Option<String>, u64)>,
) {
    let mut counter = 0u32;
    let _ = cfg;
    for op in ops {
        counter += 1;
        match op {
            Op::Advance { ns } => sim.advance(Duration::from_nanos(*ns)),
            Op::Insert { key, val, ttl, bytes, .. } => {
                let k = &keys[*key];
                let v = harness::plain_value(*key, writer, counter, val.len.max(1));
                sim.op_begin("insert");
                let r = match (*ttl, *bytes) {
                    (0, false) => store.insert(k, &v),
                    (0, true) => store.insert_bytes(k, bytes::Bytes::from(v.clone())),
                    (t, _) => store.insert_with_ttl(k, &v, t),
                };
                sim.op_end();
                if r.is_ok() {
                    if let Some(vk) = store.verif_key(k) {
                        changes.lock().unwrap().push(Change { at: sim.now_mono(), key: k.clone(), state: Some(Gen { value: v, ts: vk.timestamp, expiry: vk.expiry }) });
                    }
                }
            }
            Op::Get { key, bytes } => {
                let k = &keys[*key];
                sim.op_begin("get");
                let r = if *bytes { store.get_bytes(k).map(|b| b.to_vec()) } else { store.get(k) };
                sim.op_end();
                let mut g = reads.lock().unwrap();
                g.0 = g.0.max(sim.now_mono());
                g.1 += 1;
                match r {
                    Ok(v) => {
                        // every value of these runs identifies its key: a read may be old, never foreign
                        match harness::value_is_self_consistent(&v) {
                            Some((kid, _, _)) if kid == *key => {}
                            _ if v.len() < 11 => {} // too short to carry its identity (counters, tiny values)
                            other => g.2 = Some(format!("get({}) returned {} bytes that are not a value written to this key ({other:?})", show(k), v.len())),
                        }
                    }
                    Err(feoxdb::FeoxError::KeyNotFound) => {}
                    Err(feoxdb::FeoxError::StaleExtent) => g.3 += 1,
                    Err(e) => g.2 = Some(format!("get({}) failed with {e:?}", show(k))),
                }
            }
            Op::Delete { key, .. } => {
                let k = &keys[*key];
                sim.op_begin("delete");
                let r = store.delete(k);
                sim.op_end();
                if r.is_ok() {
                    changes.lock().unwrap().push(Change { at: sim.now_mono(), key: k.clone(), state: None });
                }
            }
            Op::Incr { key, delta, .. } => {
                let k = &keys[*key];
                sim.op_begin("incr");
                let r = store.atomic_increment(k, *delta);
                sim.op_end();
                if let Ok(v) = r {
                    if let Some(vk) = store.verif_key(k) {
                        changes.lock().unwrap().push(Change { at: sim.now_mono(), key: k.clone(), state: Some(Gen { value: v.to_le_bytes().to_vec(), ts: vk.timestamp, expiry: vk.expiry }) });
                    }
                }
            }
            _ => {}
        }
    }
}

/// The final states of all keys need more blocks than the data area has: the device cannot hold
/// them, an entry that stays buffered is then no violation of the bound (a scenario the minimiser
/// produces by dropping deletes, never the generator).
fn cannot_fit(image_len: usize, log: &[Change]) -> bool {
    let mut last: BTreeMap<&Vec<u8>, &Option<Gen>> = BTreeMap::new();
    for c in log {
        last.insert(&c.key, &c.state);
    }
    let needed: u64 = last.iter().filter_map(|(k, s)| s.as_ref().map(|g| codec::extent_blocks(3, k.len(), g.value.len()))).sum();
    needed > (image_len / codec::BLOCK) as u64 - codec::DATA_START
}

/// Every modification accepted at or before `cutoff` must be reflected in the durable image:
/// per key the image holds the state of the last change <= cutoff or a later one.
fn check_durable_upto(
    disk: &Arc<crate::disk::SimDisk>,
    log: &[Change],
    cutoff: u64,
    now: u64,
    ttl: bool,
    wall: u64,
    pinned_keys: &[Vec<u8>],
) -> Result<(), (String, String)> {
    let image = disk.durable_image();
    if cannot_fit(image.len(), log) {
        return Ok(());
    }
    let decoded = codec::decode_image(&image, DecodeOptions::default())
        .map_err(|why| ("image-rejected".to_string(), format!("durable image rejected by the independent reader: {why}")))?;
    let mut per_key: BTreeMap<&Vec<u8>, Vec<&Change>> = BTreeMap::new();
    for c in log {
        per_key.entry(&c.key).or_default().push(c);
    }
    for (key, list) in per_key {
        let covered = list.iter().rposition(|c| c.at <= cutoff);
        let Some(ci) = covered else { continue };
        let acceptable: Vec<&Option<Gen>> = list[ci..].iter().map(|c| &c.state).collect();
        let found = decoded.live.get(key).map(|r| Gen { value: r.value.clone(), ts: r.timestamp, expiry: r.expiry });
        let ok = acceptable.iter().any(|s| **s == found)
            || (found.is_none() && ttl && acceptable.iter().any(|s| s.as_ref().is_some_and(|g| g.expiry != 0 && wall > g.expiry)));
        // a delete becomes durable by retiring the key's durable generation, and a retirement
        // waits for the readers of that extent ("once no reader holds them"): while a reader of
        // this key may still be inside its read, an older genuine generation is acceptable in
        // place of "absent"
        let excused = !ok
            && pinned_keys.contains(key)
            && acceptable.iter().any(|s| s.is_none())
            && found.as_ref().is_some_and(|f| list.iter().any(|c| c.state.as_ref() == Some(f)));
        if !ok && !excused {
            let age_ms = (now - list[ci].at) / 1_000_000;
            return Err((
                "write-behind-not-bounded".into(),
                format!(
                    "key {}: a modification accepted {age_ms} virtual ms ago (no later one for {} ms) is not in the durable image; image holds {:?}, expected (ts={:?})",
                    show(key),
                    DURABLE_BOUND_NS / 1_000_000,
                    found.as_ref().map(|g| (g.ts, g.value.len())),
                    list[ci].state.as_ref().map(|g| g.ts)
                ),
            ));
        }
    }
    Ok(())
}

fn check_recovers(sim: &Arc<Sim>, sc: &Scenario, disk: &Arc<crate::disk::SimDisk>, log: &[Change]) -> Result<(), (String, String)> {
    if cannot_fit(disk.durable_image().len(), log) {
        return Ok(());
    }
    let mut env2 = Env::new(Arc::clone(sim), sc.store.clone(), sc.keys.clone(), "liverec");
    env2.install_image(disk.durable_image());
    feoxdb::verif::process_restart();
    if let Err(e) = env2.open() {
        env2.cleanup();
        return Err(("reopen-failed".into(), format!("the durable image at the bound cannot be opened: {e:?}")));
    }
    let mut last: BTreeMap<&Vec<u8>, &Option<Gen>> = BTreeMap::new();
    for c in log {
        last.insert(&c.key, &c.state);
    }
    for (key, state) in last {
        let got = env2.st().get(key);
        let ok = match (state, &got) {
            (None, Err(feoxdb::FeoxError::KeyNotFound)) => true,
            (Some(g), Ok(v)) => *v == g.value,
            (Some(g), Err(feoxdb::FeoxError::KeyNotFound)) => g.expiry != 0,
            _ => false,
        };
        if !ok {
            env2.cleanup();
            return Err((
                "write-behind-not-bounded".into(),
                format!("key {}: after recovering the durable image taken at the bound, get returns {:?} instead of the final state {:?}", show(key), got.map(|v| v.len()), state.as_ref().map(|g| g.value.len())),
            ));
        }
    }
    env2.cleanup();
    Ok(())
}
