//! `crash`: workload -> power loss at a device-call boundary -> family of images (lost,
//! reordered, torn writes) -> recovery in a fresh handle -> durability / authenticity oracle,
//! optionally nested crashes inside recovery. Serves C02 C03 C04 (and C05/C11/C12 halves).

use std::collections::BTreeMap;
use std::sync::{Arc, Mutex};
use std::time::Duration;

use crate::checks;
use crate::codec;
use crate::disk::{CrashCapture, FaultPlan, ImageVariant};
use crate::harness::{self, Env, Resolver};
use crate::model::{Call, ErrKind, Gen, Model, Res};
use crate::runner::{BodyReport, Engine};
use crate::scenario::*;
use crate::sched::{Sim, SimConfig, Strategy};
use crate::tape::{mix, Tape};

pub struct CrashEngine;

#[derive(Clone, Debug)]
pub struct Trans {
    pub state: Option<Gen>,
    pub ret: u64,
}

#[derive(Default)]
struct Recorder {
    /// per key: states in order; implicit first state "absent" (ret = 0)
    hist: Mutex<BTreeMap<Vec<u8>, Vec<Trans>>>,
    /// (invoke event, return event) of acknowledged flushes / clean closes
    acks: Mutex<Vec<(u64, u64)>>,
}

fn show(k: &[u8]) -> String {
    if k.len() > 24 {
        format!("{}..({}B)", String::from_utf8_lossy(&k[..12]), k.len())
    } else {
        String::from_utf8_lossy(k).into_owned()
    }
}

#[allow(clippy::too_many_arguments)]
fn gen_ops(w: &mut Tape, keys: &[usize], n: usize, ttl: bool, blocks_cap: usize, forged: bool, flush_pct: u32, far_ts: bool) -> Vec<Op> {
    let mut ops = Vec::new();
    for _ in 0..n {
        let key = keys[w.below(keys.len() as u32) as usize];
        let val = |w: &mut Tape| {
            if forged && blocks_cap >= 3 && w.chance(1, 6) {
                Val { len: (2 + w.below(3) as usize) * 4096, kind: ValKind::Forged }
            } else if w.chance(1, 8) {
                Val { len: 8, kind: ValKind::Counter(w.below(100) as i64) }
            } else {
                Val { len: gen_len(w, blocks_cap), kind: ValKind::Plain }
            }
        };
        let ts = |w: &mut Tape| match w.below(10) {
            // C12 profile: versions far ahead of the wall clock, which the clock has to learn
            // again from the recovered records
            3 | 4 if far_ts => w
                .pick(&[
                    Ts::RelNow(3_600_000_000_000),
                    Ts::RelNow(86_400_000_000_000 * 365),
                    Ts::RelCur(1_000_000_000_000),
                    Ts::MaxMinus(1),
                    Ts::MaxMinus(1000),
                ])
                .clone(),
            0 => Ts::RelCur(1 + w.below(50) as i64),
            1 => Ts::RelNow(1_000_000 * (1 + w.below(50) as i64)),
            2 => Ts::RelCur(-1),
            _ => Ts::Auto,
        };
        let roll = w.below(100);
        let op = if roll < flush_pct {
            Op::Flush
        } else if roll < flush_pct + 3 {
            Op::Settle
        } else if roll < flush_pct + 6 {
            Op::Advance { ns: *w.pick(&[30_000_000u64, 120_000_000, 600_000_000, 2_500_000_000]) }
        } else {
            match w.below(20) {
                0..=8 => Op::Insert {
                    key,
                    val: val(w),
                    ts: ts(w),
                    ttl: if ttl && w.chance(1, 4) { *w.pick(&[1u64, 2, 5, 3600]) } else { 0 },
                    bytes: w.chance(1, 2),
                },
                9..=11 => Op::Delete { key, ts: ts(w) },
                12 | 13 => Op::Cas { key, expect: Expect::Current, val: val(w), ts: ts(w), ttl: 0 },
                14 | 15 => Op::Incr { key, delta: 1 + w.below(9) as i64, ts: Ts::Auto, ttl: 0 },
                16 if ttl => Op::UpdateTtl { key, ttl: *w.pick(&[1u64, 3, 3600]) },
                17 if ttl => Op::Persist { key },
                18 => Op::Get { key, bytes: false },
                _ => Op::InsertIfAbsent { key, val: val(w) },
            }
        };
        ops.push(op);
    }
    ops
}

impl Engine for CrashEngine {
    fn name(&self) -> &'static str {
        "crash"
    }

    fn nontrivial_rule(&self, property: &str) -> String {
        match property {
            "C02" => "run recovered >= 1 crash image taken after an acknowledged flush/close while un-fsynced writes or later modifications existed; distinct = distinct hash of (workload, schedule, crash instants, image variants)".into(),
            "C04" => "run re-opened >= 1 recovered image again and/or crashed inside recovery's own repair writes (>= 1 nested image recovered); distinct by case hash".into(),
            _ => "run recovered >= 2 image variants of >= 1 crash instant with >= 1 key in the history; distinct by case hash".into(),
        }
    }

    fn generate(&self, property: &str, seed: u64, tier: &str) -> Scenario {
        let mut c = Tape::fresh(mix(seed, 0xC0F6));
        let mut w = Tape::fresh(mix(seed, 0x3017));
        let ttl_focus = property == "C11";
        let format = if ttl_focus { *c.pick(&[3u32, 3, 2]) } else { *c.pick(&[3u32, 3, 3, 3, 2, 1]) };
        let ttl = (ttl_focus || c.chance(40, 100)) && format != 1;
        let data_blocks = *c.pick(&[24u64, 32, 48, 96]);
        let n_clients = 1 + c.below(3) as usize;
        let n_keys = (n_clients + c.below(6) as usize).max(1);
        let max_key = if format == 1 { crate::model::MAX_RECOVERABLE_KEY_V1 } else { crate::model::MAX_RECOVERABLE_KEY };
        let keys = gen_keys(&mut c, n_keys, max_key.min(600));
        let blocks_cap = ((data_blocks / 6) as usize).clamp(1, 6);
        let shards = 1 + c.below(3) as usize;
        let strategy = match c.below(4) {
            0 => Strategy::Random,
            1 => Strategy::Sticky(*c.pick(&[50u32, 200, 400])),
            2 => Strategy::Pct(1 + c.below(3)),
            _ => Strategy::Starve(1 + c.below(4)),
        };
        let sim = SimConfig {
            strategy,
            tick_ns: *c.pick(&[0u64, 1_000, 50_000]),
            shards,
            workers: 1 + c.below(shards as u32) as usize,
            hash_seed: c.u64(),
            frozen_wall: false,
            ..SimConfig::default()
        };
        let store = StoreCfg {
            persistent: true,
            format,
            cache: c.chance(1, 2),
            ttl,
            hash_bits: 2 + c.below(5),
            data_blocks,
            max_memory: None,
            sweeper: None,
            create_empty_file: format == 3 && c.chance(1, 5),
            allow_ambiguous: false,
            ring: gen_ring(seed),
        };
        let forged = property == "C03" || c.chance(1, 4);
        let flush_pct = if property == "C02" { 14 } else { 8 };
        let mut clients = Vec::new();
        // family: several clients that each make a key durable, modify or delete it and flush
        // again, so that acknowledgements race with each other's retirements
        let racing_flushers = n_clients >= 2 && (property == "C02" || property == "C05") && c.chance(2, 5);
        for ci in 0..n_clients {
            let mine: Vec<usize> = (0..keys.len()).filter(|k| k % n_clients == ci).collect();
            let n_ops = 4 + w.below(if tier == "thorough" { 40 } else { 24 }) as usize;
            let few = 1 + w.below(4) as usize;
            let mut ops = if racing_flushers {
                gen_ops(&mut w, &mine, few, ttl, blocks_cap, false, 0, property == "C12")
            } else {
                gen_ops(&mut w, &mine, n_ops, ttl, blocks_cap, forged, flush_pct, property == "C12")
            };
            if racing_flushers {
                let key = mine[w.below(mine.len() as u32) as usize];
                let small = |w: &mut Tape| Val { len: 20 + w.below(200) as usize, kind: ValKind::Plain };
                ops.push(Op::Insert { key, val: small(&mut w), ts: Ts::Auto, ttl: 0, bytes: false });
                ops.push(Op::Flush);
                for _ in 0..1 + w.below(3) {
                    ops.push(if w.chance(1, 2) {
                        Op::Delete { key, ts: Ts::Auto }
                    } else {
                        Op::Insert { key, val: small(&mut w), ts: Ts::Auto, ttl: 0, bytes: false }
                    });
                    ops.push(Op::Flush);
                }
            }
            clients.push(ops);
        }
        // full-device family (own tape): one client fills the data area completely with 3-6 records
        // and makes that durable; every later delete + re-creation of a key (same number of
        // blocks) can only be written once the retirement of the deleted generation has freed its
        // blocks - inside the same flush() that acknowledges the re-creation. Plain overwrites
        // (which cannot be written at all: the flush reports OutOfSpace and ends the workload) close it.
        let mut fd = Tape::fresh(mix(seed, 0xF0DE));
        let full_device = matches!(property, "C02" | "C03" | "C04" | "C05") && fd.chance(1, 6);
        let (store, keys, clients, sim) = if full_device {
            let n = 3 + fd.below(4) as usize;
            let sizes: Vec<usize> = (0..n).map(|_| 1 + fd.below(3) as usize).collect();
            let keys: Vec<Vec<u8>> = (0..n).map(|i| format!("fd{i}").into_bytes()).collect();
            let len_for = |blocks: usize, salt: usize| blocks * 4096 - 400 - (salt % 200);
            let mut ops: Vec<Op> = Vec::new();
            for (key, b) in sizes.iter().enumerate() {
                ops.push(Op::Insert { key, val: Val { len: len_for(*b, key), kind: ValKind::Plain }, ts: Ts::Auto, ttl: 0, bytes: fd.chance(1, 2) });
            }
            ops.push(Op::Flush);
            for round in 0..2 + fd.below(4) as usize {
                let key = fd.below(n as u32) as usize;
                ops.push(Op::Delete { key, ts: Ts::Auto });
                if fd.chance(1, 4) {
                    ops.push(Op::Flush);
                }
                ops.push(Op::Insert { key, val: Val { len: len_for(sizes[key], 7 * round + 3), kind: ValKind::Plain }, ts: Ts::Auto, ttl: 0, bytes: false });
                ops.push(Op::Flush);
                if fd.chance(1, 3) {
                    ops.push(Op::Get { key, bytes: false });
                }
            }
            if fd.chance(1, 2) {
                let key = fd.below(n as u32) as usize;
                ops.push(Op::Insert { key, val: Val { len: len_for(sizes[key], 99), kind: ValKind::Plain }, ts: Ts::Auto, ttl: 0, bytes: false });
                ops.push(Op::Flush);
            }
            let total: usize = sizes.iter().sum();
            (
                StoreCfg { data_blocks: total as u64 + if fd.chance(1, 3) { 1 } else { 0 }, ttl: false, ..store },
                keys,
                vec![ops],
                SimConfig { shards: 1 + fd.below(2) as usize, workers: 1, ..sim },
            )
        } else {
            (store, keys, clients, sim)
        };
        let mut knobs = BTreeMap::new();
        knobs.insert("full_device".into(), full_device as i64);
        let thorough = tier == "thorough";
        knobs.insert("crash_points".into(), if thorough { if c.chance(1, 3) { -1 } else { 12 } } else if racing_flushers || full_device { 6 } else { 3 });
        knobs.insert("images_per_point".into(), if thorough { 64 } else { 10 });
        knobs.insert("tear_unit".into(), *c.pick(&[512i64, 4096]));
        knobs.insert("after_first_ack".into(), (property == "C02") as i64);
        knobs.insert("nested".into(), (property == "C04") as i64);
        knobs.insert("nested_points".into(), if thorough { -1 } else { 3 });
        // recovery with one failing device call (own tape)
        let mut fr = Tape::fresh(mix(seed, 0xFA11ED));
        knobs.insert("faulty_recovery".into(), (matches!(property, "C04" | "C09") && fr.chance(1, 2)) as i64);
        knobs.insert("faulty_recovery_points".into(), if thorough { 6 } else { 2 });
        knobs.insert("reopen_again".into(), if property == "C04" { 2 } else { c.below(2) as i64 });
        knobs.insert("probe".into(), (property != "C04") as i64);
        // window-edge family (own tape): see run_workload
        let mut we = Tape::fresh(mix(seed, 0x3ED6E));
        if !ttl_focus && !full_device && we.chance(1, 6) {
            // mostly just below the scan window (256 blocks); sometimes well above it, which also
            // makes the filler's retirement a multi-piece marker write (256 blocks per piece)
            let big = we.chance(1, 3);
            knobs.insert("filler_blocks".into(), if big { 270 + we.below(300) as i64 } else { 236 + we.below(18) as i64 });
            knobs.insert("filler_deleted".into(), (big || we.chance(1, 3)) as i64);
        }
        // second-session family (own tape): the workload is made durable, the store closed cleanly
        // and opened again, and the new session's first flush is one batch of 60-140 records of
        // one shard - an allocation-journal image of several sectors, the first journal write after
        // a reopen. Crash points are put around that write, torn at sector granularity.
        let mut ss = Tape::fresh(mix(seed, 0x5E55));
        let second_session = !ttl_focus && !full_device && !knobs.contains_key("filler_blocks") && property != "C12" && ss.chance(1, 7);
        if second_session {
            knobs.insert("second_session".into(), 60 + ss.below(80) as i64);
            knobs.insert("tear_unit".into(), 512);
            knobs.insert("close_ack".into(), 0);
        }
        // the workload ends with a clean drop of the store, which acknowledges everything that
        // completed before it (C02: "or the store has been dropped cleanly on a healthy device");
        // crash points may then fall inside or after the close
        if !second_session {
            knobs.insert("close_ack".into(), Tape::fresh(mix(seed, 0xC105E)).chance(1, 3) as i64);
        }
        // let time pass between the crash and the restart (so that fresh TTLs have expired)
        knobs.insert("downtime_ms".into(), if ttl_focus { *c.pick(&[0i64, 1_500, 2_500, 6_000, 4_000_000]) } else if ttl { *c.pick(&[0i64, 0, 2_500]) } else { 0 });
        let store = match knobs.get("filler_blocks") {
            Some(f) => StoreCfg { data_blocks: (*f as u64).max(256) + 8 + store.data_blocks, ..store },
            None => store,
        };
        let (store, sim) = match knobs.get("second_session") {
            Some(n) => (StoreCfg { data_blocks: store.data_blocks + *n as u64 + 16, ..store }, SimConfig { shards: 1, workers: 1, ..sim }),
            None => (store, sim),
        };
        Scenario {
            engine: "crash".into(),
            property: property.into(),
            seed,
            sim,
            store,
            keys,
            clients,
            faults: FaultPlan::default(),
            knobs,
        }
    }

    fn body(&self, sim: &Arc<Sim>, sc: &Scenario) -> BodyReport {
        let mut report = BodyReport::default();
        let mut pick = Tape::fresh(mix(sc.seed, 0xC4A5));
        let wanted = sc.knob("crash_points", 3);
        // attempt 0: no crash inside the workload, capture when it has finished
        let first = run_workload(sim, sc, None, &mut report);
        let Some(first) = first else { return report };
        let total_calls = first.calls;
        let first_ack_call = first.first_ack_call;
        process_capture(sim, sc, &first, &mut report, &mut pick);
        if report.violation.is_some() {
            return report;
        }
        let lo = if sc.knob("after_first_ack", 0) == 1 {
            match first_ack_call {
                Some(c) => c,
                None => {
                    report.count("no_ack_in_workload", 1);
                    return report;
                }
            }
        } else {
            0
        };
        let points: Vec<u64> = if wanted < 0 {
            (lo..total_calls).collect()
        } else {
            let mut v: Vec<u64> = Vec::new();
            for i in 0..wanted {
                if total_calls <= lo {
                    break;
                }
                let p = if i % 3 == 0 && !first.site_calls.is_empty() {
                    // bias: right around a protocol step of the flush / retirement path
                    let (_, call) = first.site_calls[pick.below(first.site_calls.len() as u32) as usize];
                    (call + pick.below(3) as u64).clamp(lo, total_calls - 1)
                } else if i % 3 == 1 && !first.ack_calls.is_empty() {
                    // bias: right after an acknowledgement was handed out
                    let call = first.ack_calls[pick.below(first.ack_calls.len() as u32) as usize];
                    (call + pick.below(3) as u64).clamp(lo, total_calls - 1)
                } else {
                    lo + pick.range(0, total_calls - lo - 1)
                };
                if !v.contains(&p) {
                    v.push(p);
                }
            }
            v
        };
        let mut points = points;
        if !first.focus_calls.is_empty() {
            let mut focused: Vec<u64> = first.focus_calls.iter().copied().filter(|p| *p >= lo && *p < total_calls).collect();
            focused.truncate(if wanted < 0 { 3 } else { 2 });
            points.retain(|p| !focused.contains(p));
            points.truncate((wanted.max(1) as usize).saturating_sub(focused.len()).max(if wanted < 0 { usize::MAX } else { 1 }));
            focused.extend(points);
            points = focused;
        }
        for p in points {
            let run = run_workload(sim, sc, Some(p), &mut report);
            let Some(run) = run else { return report };
            process_capture(sim, sc, &run, &mut report, &mut pick);
            if report.violation.is_some() {
                return report;
            }
        }
        report
    }
}

pub struct WorkloadRun {
    pub capture: CrashCapture,
    pub hist: BTreeMap<Vec<u8>, Vec<Trans>>,
    pub acks: Vec<(u64, u64)>,
    pub calls: u64,
    pub first_ack_call: Option<u64>,
    /// device call index at which each acknowledged flush returned
    pub ack_calls: Vec<u64>,
    /// (site, device call index) of protocol steps seen
    pub site_calls: Vec<(&'static str, u64)>,
    pub crashed_inside: bool,
    /// device calls a directed family wants the power cut at
    pub focus_calls: Vec<u64>,
}

/// One client's operations against its own keys, recording every accepted transition.
#[allow(clippy::too_many_arguments)]
fn client_loop(
    sim: &Arc<Sim>,
    store: &feoxdb::FeoxStore,
    disk: &Arc<crate::disk::SimDisk>,
    cfg: &StoreCfg,
    keys: &[Vec<u8>],
    ops: &[Op],
    writer: u8,
    rec: &Recorder,
    problems: &Mutex<Vec<(String, String)>>,
    counters: &Mutex<BTreeMap<String, u64>>,
    judge_collateral_pins: bool,
) {
    let mut model: Model = harness::new_model(cfg);
    model.cfg.judge_collateral_pins = judge_collateral_pins;
    let mut resolver = Resolver {
        keys,
        writer,
        counter: 0,
        format: cfg.format,
    };
    let bump = |name: &str| {
        *counters.lock().unwrap().entry(name.to_string()).or_insert(0) += 1;
    };
    for (i, op) in ops.iter().enumerate() {
        if disk.is_dead() {
            break;
        }
        match op {
            Op::Settle => {
                for _ in 0..20 {
                    let idle = store.verif_shard_counts().iter().all(|c| *c == 0)
                        && store.verif_retirements_pending() == Some(0);
                    if idle || disk.is_dead() {
                        break;
                    }
                    sim.sleep(Duration::from_millis(60));
                }
                continue;
            }
            Op::Advance { ns } => {
                sim.advance(Duration::from_nanos(*ns));
                continue;
            }
            _ => {}
        }
        let now = sim.now_wall();
        let view = |k: &[u8]| -> Option<Gen> { model.map.get(k).cloned() };
        let Some(call) = harness::resolve_call(op, &mut resolver, &view, now, Some(store)) else {
            continue;
        };
        let bytes_api = matches!(op, Op::Insert { bytes: true, .. });
        let now0 = sim.now_wall();
        let invoke = sim.next_event();
        sim.op_begin(call.name());
        let res = harness::exec_call(store, &call, bytes_api);
        sim.op_end();
        let ret = sim.next_event();
        let now1 = sim.now_wall();
        bump(&format!("op.{}", call.name()));
        if std::env::var("SIMCHECK_DEBUG").is_ok() {
            eprintln!("client {writer} op #{i} ev {invoke}..{ret}: {} -> {}", call.brief(), res.brief());
        }
        if matches!(call, Call::Flush) {
            match &res {
                Res::Unit => {
                    rec.acks.lock().unwrap().push((invoke, ret));
                    bump("acks");
                }
                Res::Err(ErrKind::OutOfSpace) => {
                    bump("flush_out_of_space");
                    break;
                }
                Res::Err(_) if disk.is_dead() => break,
                Res::Err(e) => {
                    problems.lock().unwrap().push((
                        "flush-failed".into(),
                        format!("client {writer} op #{i}: flush() failed with {e:?} on a healthy device"),
                    ));
                    break;
                }
                _ => {}
            }
            continue;
        }
        if disk.is_dead() {
            // the device died during this call: its effect is "in flight", record it as possible
            if let (Some(key), false) = (call.key(), matches!(res, Res::Err(_))) {
                if let Some(vk) = store.verif_key(key) {
                    let value = match &call {
                        Call::Insert { value, .. } | Call::Cas { value, .. } | Call::InsertIfAbsent { value, .. } => Some(value.clone()),
                        Call::Incr { .. } => match &res {
                            Res::Int(v) => Some(v.to_le_bytes().to_vec()),
                            _ => None,
                        },
                        Call::UpdateTtl { .. } => model.map.get(key).map(|g| g.value.clone()),
                        _ => None,
                    };
                    if let Some(value) = value {
                        rec.hist.lock().unwrap().entry(key.to_vec()).or_default().push(Trans {
                            state: Some(Gen { value, ts: vk.timestamp, expiry: vk.expiry }),
                            ret,
                        });
                    }
                } else if matches!(call, Call::Delete { .. }) {
                    rec.hist.lock().unwrap().entry(key.to_vec()).or_default().push(Trans { state: None, ret });
                }
            }
            break;
        }
        let obs = call.key().and_then(|k| {
            store.verif_key(k).map(|k| crate::model::Obs { ts: k.timestamp, expiry: k.expiry, value_len: k.value_len })
        });
        let norm = harness::normalise_call(&call);
        let before = call.key().and_then(|k| model.map.get(k).cloned());
        if let Err(f) = model.step(&norm, &res, obs.as_ref(), now0, now1) {
            problems.lock().unwrap().push((f.rule.to_string(), format!("client {writer} op #{i}: {}", f.detail)));
            break;
        }
        if let Some(key) = call.key() {
            let after = model.map.get(key).cloned();
            if after != before {
                rec.hist.lock().unwrap().entry(key.to_vec()).or_default().push(Trans { state: after, ret });
                bump("transitions");
            }
        }
    }
}

fn run_workload(sim: &Arc<Sim>, sc: &Scenario, crash_at_call: Option<u64>, report: &mut BodyReport) -> Option<WorkloadRun> {
    let mut env = Env::new(Arc::clone(sim), sc.store.clone(), sc.keys.clone(), "crash");
    env.create_device();
    let disk = env.disk.clone().unwrap();
    disk.set_plan(FaultPlan {
        crash_at_call,
        ..FaultPlan::default()
    });
    sim.watch_sites(&[
        "after_allocation_intent",
        "before_replacement_write",
        "before_allocation_journal_clear",
        "after_replacement_write",
        "wb.before_publish",
        "wb.between_publish_and_clear",
        "ret.after_retire",
        "ret.before_release_check",
        "wb.after_alloc",
    ]);
    if let Err(e) = env.open() {
        if disk.is_dead() {
            // crashed during the very first initialisation
            let capture = disk.take_capture().unwrap_or_else(|| disk.capture_now());
            env.cleanup();
            return Some(WorkloadRun {
                capture,
                hist: BTreeMap::new(),
                acks: Vec::new(),
                calls: disk.calls(),
                first_ack_call: None,
                ack_calls: Vec::new(),
                site_calls: Vec::new(),
                crashed_inside: true,
                focus_calls: Vec::new(),
            });
        }
        report.fail("open-failed", format!("opening a fresh device failed: {e:?}"));
        env.cleanup();
        return None;
    }
    let store = Arc::clone(env.st());
    let rec = Arc::new(Recorder::default());
    let problems: Arc<Mutex<Vec<(String, String)>>> = Arc::new(Mutex::new(Vec::new()));
    let counters: Arc<Mutex<BTreeMap<String, u64>>> = Arc::new(Mutex::new(BTreeMap::new()));
    // "window edge" family: one large filler record first, so that the workload's records sit
    // around the end of recovery's first scan window (256 blocks) instead of well inside it
    let filler_blocks = sc.knob("filler_blocks", 0) as usize;
    if filler_blocks > 0 && !disk.is_dead() {
        let key = b"zz:filler".to_vec();
        let value = harness::plain_value(251, 9, 1, filler_blocks * 4096 - 300);
        let inserted = store.insert(&key, &value);
        let ret = sim.next_event();
        if inserted.is_ok() && !disk.is_dead() {
            if let Some(vk) = store.verif_key(&key) {
                rec.hist.lock().unwrap().entry(key.clone()).or_default().push(Trans {
                    state: Some(Gen { value, ts: vk.timestamp, expiry: 0 }),
                    ret,
                });
            }
            let invoke = sim.next_event();
            if store.flush().is_ok() && !disk.is_dead() {
                rec.acks.lock().unwrap().push((invoke, sim.next_event()));
            }
        }
    }
    let mut handles = Vec::new();
    let c12 = sc.property == "C12";
    for (ci, ops) in sc.clients.iter().enumerate().skip(1) {
        let (sim2, store2, disk2, cfg2, keys2, ops2, rec2, prob2, cnt2) = (
            Arc::clone(sim),
            Arc::clone(&store),
            Arc::clone(&disk),
            sc.store.clone(),
            sc.keys.clone(),
            ops.clone(),
            Arc::clone(&rec),
            Arc::clone(&problems),
            Arc::clone(&counters),
        );
        feoxdb::verif::thread::name_next_spawn("client");
        handles.push(feoxdb::verif::thread::spawn(move || {
            client_loop(&sim2, &store2, &disk2, &cfg2, &keys2, &ops2, ci as u8, &rec2, &prob2, &cnt2, c12);
        }));
    }
    client_loop(sim, &store, &disk, &sc.store, &sc.keys, &sc.clients[0], 0, &rec, &problems, &counters, c12);
    for h in handles {
        let _ = h.join();
    }
    drop(store);
    for (k, v) in counters.lock().unwrap().iter() {
        report.count(k, *v);
    }
    if let Some((rule, detail)) = problems.lock().unwrap().first().cloned() {
        report.fail(&rule, detail);
        env.cleanup();
        return None;
    }
    report.ops += sc.op_count() as u64;
    if filler_blocks > 0 && sc.knob("filler_deleted", 0) == 1 && !disk.is_dead() {
        // the large record goes away again: its retirement is written in pieces, and the crash
        // points of the later attempts fall between and inside them
        let key = b"zz:filler".to_vec();
        let store = env.st();
        let deleted = store.delete(&key);
        let ret = sim.next_event();
        if deleted.is_ok() && !disk.is_dead() {
            rec.hist.lock().unwrap().entry(key).or_default().push(Trans { state: None, ret });
            let invoke = sim.next_event();
            if store.flush().is_ok() && !disk.is_dead() {
                rec.acks.lock().unwrap().push((invoke, sim.next_event()));
            }
        }
    }
    let mut second_from_call: Option<u64> = None;
    let burst = sc.knob("second_session", 0) as usize;
    if burst > 0 && !disk.is_dead() {
        // end of the first session: flush (ack), clean close (ack), reopen
        let invoke = sim.next_event();
        if env.st().flush().is_ok() && !disk.is_dead() {
            rec.acks.lock().unwrap().push((invoke, sim.next_event()));
        }
        if !disk.is_dead() {
            let fits = !checks::capacity_risk(&env);
            let invoke = sim.next_event();
            env.close();
            let ret = sim.next_event();
            if !disk.is_dead() && fits {
                rec.acks.lock().unwrap().push((invoke, ret));
                report.count("close_acks", 1);
            }
        }
        if !disk.is_dead() {
            match env.open() {
                Ok(()) => {
                    report.count("second_sessions", 1);
                    second_from_call = Some(disk.calls());
                    let store = Arc::clone(env.st());
                    let mut all_in = true;
                    for i in 0..burst {
                        let key = format!("ss:{i:04}").into_bytes();
                        let value = harness::plain_value(240, 7, i as u32, 24 + (i * 7) % 180);
                        let inserted = store.insert(&key, &value);
                        let ret = sim.next_event();
                        if disk.is_dead() {
                            break;
                        }
                        match (inserted, store.verif_key(&key)) {
                            (Ok(_), Some(vk)) => rec.hist.lock().unwrap().entry(key).or_default().push(Trans {
                                state: Some(Gen { value, ts: vk.timestamp, expiry: 0 }),
                                ret,
                            }),
                            _ => all_in = false,
                        }
                    }
                    if all_in && !disk.is_dead() {
                        let invoke = sim.next_event();
                        if store.flush().is_ok() && !disk.is_dead() {
                            rec.acks.lock().unwrap().push((invoke, sim.next_event()));
                        }
                    }
                }
                Err(e) if !disk.is_dead() => {
                    report.fail("reopen-failed-after-clean-close", format!("the second session could not open the device the first one closed cleanly: {e:?}"));
                    env.cleanup();
                    return None;
                }
                Err(_) => {}
            }
        }
    }
    if sc.knob("close_ack", 0) == 1 && !disk.is_dead() {
        // a clean close may legitimately lose what the device has no room for
        let fits = !checks::capacity_risk(&env);
        let invoke = sim.next_event();
        env.close();
        let ret = sim.next_event();
        if !disk.is_dead() && fits {
            rec.acks.lock().unwrap().push((invoke, ret));
            report.count("close_acks", 1);
        }
    }
    let crashed_inside = disk.is_dead();
    let capture = if crashed_inside {
        disk.take_capture().expect("dead device has a capture")
    } else {
        // crash while the store is idle/working in the background after the last call returned
        let cap = disk.capture_now();
        disk.kill();
        cap
    };
    // events -> device calls
    let log = disk.log();
    let event_to_call = |ev: u64| log.iter().find(|e| e.event >= ev).map(|e| e.call);
    let acks = rec.acks.lock().unwrap().clone();
    let first_ack_call = acks.first().and_then(|(_, ret)| event_to_call(*ret)).or_else(|| acks.first().map(|_| disk.calls()));
    let site_calls: Vec<(&'static str, u64)> = sim
        .take_watched()
        .into_iter()
        .filter_map(|(site, ev)| event_to_call(ev + 1).map(|c| (site, c)))
        .collect();
    // second-session family: the power goes around the new session's first allocation-journal write
    let focus_calls: Vec<u64> = match second_from_call {
        Some(from) => log
            .iter()
            .find(|e| e.call >= from && e.op == crate::disk::DevOp::Write && e.offset >= (codec::JOURNAL_START * codec::BLOCK as u64) && e.offset < ((codec::JOURNAL_START + codec::JOURNAL_SLOT_BLOCKS * codec::JOURNAL_SLOTS as u64) * codec::BLOCK as u64))
            .map(|e| vec![e.call + 1, e.call, e.call + 2])
            .unwrap_or_default(),
        None => Vec::new(),
    };
    let calls = disk.calls();
    let ack_calls: Vec<u64> = acks.iter().map(|(_, ret)| event_to_call(*ret).unwrap_or(calls)).collect();
    // the old instance must terminate on a dead device
    env.close();
    let hist = std::mem::take(&mut *rec.hist.lock().unwrap());
    report.disk = disk.stats();
    env.cleanup();
    Some(WorkloadRun {
        capture,
        hist,
        acks,
        calls,
        first_ack_call,
        ack_calls,
        site_calls,
        crashed_inside,
        focus_calls,
    })
}

pub type Contents = BTreeMap<Vec<u8>, Gen>;

/// Everything the reopened store exposes.
pub fn contents(env: &Env) -> Result<Contents, (String, String)> {
    let store = env.st();
    let mut out = Contents::new();
    for k in store.verif_hash_keys() {
        match store.get(&k.key) {
            Ok(v) => {
                out.insert(k.key, Gen { value: v, ts: k.timestamp, expiry: k.expiry });
            }
            Err(feoxdb::FeoxError::KeyNotFound) => {
                // expired but not removed: not exposed to value reads
            }
            Err(e) => {
                return Err((
                    "recovered-read-error".into(),
                    format!("get({}) on the recovered store failed with {e:?}", show(&k.key)),
                ))
            }
        }
    }
    Ok(out)
}

/// The durability / authenticity oracle (DESIGN 4.3).
pub fn check_recovered(
    run: &WorkloadRun,
    got: &Contents,
    len: usize,
    exposed_in_index: usize,
    ttl: bool,
    now: u64,
    label: &str,
) -> Result<(), (String, String)> {
    // last ack that completed before the crash instant
    let last_ack = run
        .acks
        .iter()
        .filter(|(_, ret)| *ret <= run.capture.at_event)
        .map(|(invoke, _)| *invoke)
        .max();
    for (key, states) in &run.hist {
        // index of the newest state covered by the last ack (−1 = the implicit "absent")
        let covered: Option<usize> = last_ack.and_then(|ack| {
            states.iter().enumerate().filter(|(_, t)| t.ret < ack).map(|(i, _)| i).next_back()
        });
        let acceptable: Vec<&Option<Gen>> = match covered {
            Some(i) => states[i..].iter().map(|t| &t.state).collect(),
            None => std::iter::once(&None).chain(states.iter().map(|t| &t.state)).collect(),
        };
        let found = got.get(key);
        let ok = match found {
            Some(g) => acceptable.iter().any(|s| s.as_ref() == Some(g)),
            None => {
                acceptable.iter().any(|s| s.is_none())
                    || (ttl && acceptable.iter().any(|s| s.as_ref().is_some_and(|g| g.expiry != 0 && now > g.expiry)))
            }
        };
        if !ok {
            let in_history = found.is_some_and(|g| states.iter().any(|t| t.state.as_ref() == Some(g)));
            let describe = |s: &Option<Gen>| match s {
                None => "absent".to_string(),
                Some(g) => format!("(ts={}, expiry={}, {}B)", g.ts, g.expiry, g.value.len()),
            };
            let rule = match (found, in_history) {
                (Some(_), true) => "recovered-older-than-ack",
                (Some(_), false) => "recovered-not-authentic",
                (None, _) => "acknowledged-lost",
            };
            return Err((
                rule.into(),
                format!(
                    "[{label}] key {}: recovered {} but acceptable states (last ack at event {:?}, crash at event {}) are [{}]; full history [{}]",
                    show(key),
                    found.map_or("absent".to_string(), |g| describe(&Some(g.clone()))),
                    last_ack,
                    run.capture.at_event,
                    acceptable.iter().map(|s| describe(s)).collect::<Vec<_>>().join(", "),
                    states.iter().map(|t| describe(&t.state)).collect::<Vec<_>>().join(", "),
                ),
            ));
        }
    }
    for key in got.keys() {
        if !run.hist.contains_key(key) {
            return Err((
                "recovered-foreign-key".into(),
                format!("[{label}] key {} was never written by the application but the recovered store exposes it", show(key)),
            ));
        }
    }
    if len != exposed_in_index {
        return Err((
            "recovered-len".into(),
            format!("[{label}] len() = {len} but the recovered store holds {exposed_in_index} keys"),
        ));
    }
    Ok(())
}

pub(crate) struct Recovered {
    pub contents: Contents,
    pub live_extents: Vec<(u64, u64)>,
    pub device_calls: u64,
}

/// Open `image` in a fresh handle (a simulated process restart) and read everything back.
pub(crate) fn recover(
    sim: &Arc<Sim>,
    sc: &Scenario,
    env: &mut Env,
    image: Vec<u8>,
    plan: Option<FaultPlan>,
) -> Result<Result<Recovered, feoxdb::FeoxError>, (String, String)> {
    env.close();
    env.install_image(image);
    feoxdb::verif::process_restart();
    let disk = env.disk.clone().unwrap();
    if let Some(plan) = plan {
        disk.set_plan(plan);
    }
    let _ = sc;
    let _ = sim;
    match env.open() {
        Err(e) => Ok(Err(e)),
        Ok(()) => {
            let device_calls = disk.calls();
            let dead = || feoxdb::FeoxError::IoError(std::io::Error::from_raw_os_error(5));
            if disk.is_dead() {
                return Ok(Err(dead()));
            }
            let contents = match contents(env) {
                Ok(c) => c,
                Err(_) if disk.is_dead() => return Ok(Err(dead())),
                Err(e) => return Err(e),
            };
            let version = env.st().verif_format_version();
            let live_extents = env
                .st()
                .verif_hash_keys()
                .iter()
                .map(|k| (k.sector, codec::extent_blocks(version, k.key.len(), k.value_len)))
                .collect();
            Ok(Ok(Recovered { contents, live_extents, device_calls }))
        }
    }
}

fn process_capture(sim: &Arc<Sim>, sc: &Scenario, run: &WorkloadRun, report: &mut BodyReport, pick: &mut Tape) {
    let unit = sc.knob("tear_unit", 512) as usize;
    let max_images = sc.knob("images_per_point", 10) as usize;
    let exhaustive = if max_images >= 64 { 5 } else { 3 };
    let mut family = run.capture.family(unit, exhaustive, true, 3, pick);
    report.count("crash_points", 1);
    report.count("unsynced_writes_at_crash", run.capture.unsynced.len() as u64);
    if run.crashed_inside {
        report.count("crash_inside_workload", 1);
    }
    if !run.acks.is_empty() && run.acks.iter().any(|(_, ret)| *ret <= run.capture.at_event) {
        report.count("crash_after_ack", 1);
    }
    if run.capture.unsynced.iter().any(|w| w.limbo) {
        report.count("crash_with_limbo_writes", 1);
    }
    if let Ok(j) = codec::read_journal(&run.capture.durable) {
        if j.active {
            report.count("probe.crash_with_active_journal_durable", 1);
        }
    }
    if family.len() > max_images {
        // keep the two extremes, sample the rest
        let mut kept: Vec<ImageVariant> = family.drain(..2).collect();
        while kept.len() < max_images && !family.is_empty() {
            let i = pick.below(family.len() as u32) as usize;
            kept.push(family.swap_remove(i));
        }
        family = kept;
    }
    let mut env = Env::new(Arc::clone(sim), sc.store.clone(), sc.keys.clone(), "rec");
    let nested = sc.knob("nested", 0) == 1;
    let reopen_again = sc.knob("reopen_again", 0);
    let probe = sc.knob("probe", 1) == 1;
    let mut images_done = 0u64;
    for variant in &family {
        let image = run.capture.build(variant);
        let label = format!("crash@call{} {} unit{}", run.capture.at_call, variant.label, variant.unit);
        if images_done == 0 {
            let downtime = sc.knob("downtime_ms", 0);
            if downtime > 0 {
                sim.advance(Duration::from_millis(downtime as u64));
            }
        }
        let now0 = sim.now_wall();
        let rec = match recover(sim, sc, &mut env, image.clone(), None) {
            Err((rule, detail)) => {
                report.fail(&rule, format!("[{label}] {detail}"));
                break;
            }
            Ok(Err(e)) => {
                if std::env::var("SIMCHECK_DEBUG").is_ok() {
                    let _ = std::fs::write("/dev/shm/failed-image.bin", &image);
                    eprintln!("independent decode: {:?}", codec::decode_image(&image, codec::DecodeOptions::default()).map(|d| (d.live.keys().map(|k| show(k)).collect::<Vec<_>>(), d.retired_extents, d.journal)));
                }
                report.fail(
                    "reopen-failed-after-crash",
                    format!("[{label}] the crash image cannot be opened: {e:?} ({} unsynced writes: {:?})", run.capture.unsynced.len(),
                        run.capture.unsynced.iter().map(|w| (w.offset / 4096, w.data.len() / 4096, w.limbo)).collect::<Vec<_>>()),
                );
                break;
            }
            Ok(Ok(r)) => r,
        };
        images_done += 1;
        report.count("images_recovered", 1);
        if variant.label.starts_with("torn") {
            report.count(&format!("images_torn_{}", variant.unit), 1);
        }
        let store_len = env.st().len();
        let index_keys = env.st().verif_hash_keys().len();
        let now1 = sim.now_wall();
        let _ = now0;
        if let Err((rule, detail)) = check_recovered(run, &rec.contents, store_len, index_keys, sc.store.ttl, now1, &label) {
            report.fail(&rule, detail);
            break;
        }
        // independent cross-check: what a reader of the documented layout finds in the crash image
        // (newest generation per key, journalled extents treated as unwritten) is what recovery
        // must expose - and when that newest generation has expired, nothing at all (C11)
        match codec::decode_image(&image, codec::DecodeOptions { allow_ambiguous: false, apply_journal: true }) {
            Err(_) => report.count("crash_images_independent_reader_rejects", 1),
            Ok(decoded) => {
                report.count("crash_images_cross_checked", 1);
                for (key, r) in &decoded.live {
                    let expired_before = sc.store.ttl && r.expiry != 0 && now0 > r.expiry;
                    let expired_after = sc.store.ttl && r.expiry != 0 && now1 > r.expiry;
                    if expired_before != expired_after {
                        continue;
                    }
                    match (rec.contents.get(key), expired_after) {
                        (None, true) => report.count("probe.expired_newest_generation_hidden_by_recovery", 1),
                        (Some(g), true) => {
                            report.fail(
                                "expired-newest-generation-shadowed",
                                format!(
                                    "[{label}] key {}: the newest generation on the device (ts={}, expiry={}) had expired at recovery time {now0}, yet the store exposes (ts={}, expiry={}, {}B)",
                                    show(key), r.timestamp, r.expiry, g.ts, g.expiry, g.value.len()
                                ),
                            );
                        }
                        (Some(g), false) => {
                            if g.ts != r.timestamp || g.expiry != r.expiry || g.value != r.value {
                                report.fail(
                                    "recovery-vs-independent-reader",
                                    format!(
                                        "[{label}] key {}: the device holds (ts={}, expiry={}, {}B) as newest generation but the store exposes (ts={}, expiry={}, {}B)",
                                        show(key), r.timestamp, r.expiry, r.value.len(), g.ts, g.expiry, g.value.len()
                                    ),
                                );
                            }
                        }
                        (None, false) => {
                            report.fail(
                                "recovery-vs-independent-reader",
                                format!("[{label}] key {}: the device holds a live unexpired generation (ts={}, expiry={}) that the store does not expose", show(key), r.timestamp, r.expiry),
                            );
                        }
                    }
                }
                if report.violation.is_some() {
                    break;
                }
            }
        }
        report.states.push(mix(run.capture.at_call, rec.contents.len() as u64 ^ (images_done << 20)));
        // recovery's own writes must not touch a live record (C04c)
        let written = env.disk.as_ref().unwrap().take_written_blocks();
        for (wb, wn) in &written {
            if *wb < codec::DATA_START {
                continue;
            }
            for (sector, blocks) in &rec.live_extents {
                if wb < &(sector + blocks) && *sector < wb + wn {
                    report.fail(
                        "recovery-wrote-live-extent",
                        format!("[{label}] recovery wrote blocks {wb}..{} overlapping live extent {sector}+{blocks}", wb + wn),
                    );
                }
            }
        }
        if !written.iter().any(|(b, _)| *b >= codec::DATA_START) {
            report.count("recoveries_without_repair_writes", 1);
        } else {
            report.count("recoveries_with_repair_writes", 1);
        }
        // exact accounting on the recovered state (C13)
        if let Err(f) = checks::check_accounting_observed(&env) {
            report.fail(f.rule, format!("[{label}] after recovery: {}", f.detail));
            break;
        }
        if run.capture.unsynced.len() > 0 {
            report.count("accounting_checks_after_recovery", 1);
        }
        // partition invariant on the recovered state (C05)
        match checks::check_partition(&env) {
            Ok(_) => report.count("partition_checks_after_recovery", 1),
            Err(f) => {
                report.fail(f.rule, format!("[{label}] after recovery: {}", f.detail));
                break;
            }
        }
        if let Err(f) = checks::check_indexes_agree(&env) {
            report.fail(f.rule, format!("[{label}] after recovery: {}", f.detail));
            break;
        }
        // C04(a): opening again without writing yields the same contents
        let r1 = rec.contents.clone();
        let recovery_calls = rec.device_calls;
        for again in 0..reopen_again {
            env.close();
            feoxdb::verif::process_restart();
            if let Err(e) = env.open() {
                report.fail("reopen-failed", format!("[{label}] reopen #{again} of a recovered device failed: {e:?}"));
                break;
            }
            match contents(&env) {
                Ok(c2) => {
                    // the clock moves while the contents are read: decide expiry afterwards
                    let now = sim.now_wall();
                    if let Some(diff) = contents_diff(&r1, &c2, sc.store.ttl, now) {
                        report.fail("recovery-not-idempotent", format!("[{label}] reopen #{again} differs from the first recovery: {diff}"));
                        break;
                    }
                    report.count("reopens_compared", 1);
                }
                Err((rule, detail)) => {
                    report.fail(&rule, format!("[{label}] reopen #{again}: {detail}"));
                    break;
                }
            }
        }
        if report.violation.is_some() {
            break;
        }
        // C04(b): crash inside recovery's own repair writes, then recover again
        if nested && recovery_calls > 0 {
            let want = sc.knob("nested_points", 3);
            let points: Vec<u64> = if want < 0 || recovery_calls <= want as u64 {
                (0..recovery_calls).collect()
            } else {
                (0..want).map(|_| pick.below(recovery_calls as u32) as u64).collect()
            };
            for p in points {
                if let Err((rule, detail)) = nested_crash(sim, sc, &mut env, &image, p, &r1, &label, report, pick, 1) {
                    report.fail(&rule, detail);
                    break;
                }
            }
            if report.violation.is_some() {
                break;
            }
        }
        // C04 / C09: recovery with a failing device call
        // (only for images of a store whose initialisation had completed: a short write into the
        // very first metadata block of an empty file leaves a file that is refused as foreign -
        // nothing was ever stored in it, and none of the properties speaks about that case)
        if sc.knob("faulty_recovery", 0) == 1 && recovery_calls > 0 && report.violation.is_none() && codec::read_meta(&image).is_some() {
            for _ in 0..sc.knob("faulty_recovery_points", 2) {
                let p = pick.below(recovery_calls as u32) as u64;
                if let Err((rule, detail)) = faulty_recovery(sim, sc, &mut env, &image, p, &r1, &label, report, pick) {
                    report.fail(&rule, detail);
                    break;
                }
            }
            if report.violation.is_some() {
                break;
            }
        }
        // C03: the recovered store works
        if probe && images_done % 3 == 1 {
            if let Err((rule, detail)) = probe_store(sim, &env, &r1, &label) {
                report.fail(&rule, detail);
                break;
            }
            report.count("probe_workloads", 1);
        }
    }
    report.nontrivial |= match sc.property.as_str() {
        "C02" => images_done >= 1 && run.acks.iter().any(|(_, ret)| *ret <= run.capture.at_event),
        "C04" => images_done >= 1,
        _ => images_done >= 2 && !run.hist.is_empty(),
    };
    report.extra_hash = mix(report.extra_hash, mix(run.capture.at_call, images_done));
    env.cleanup();
}

pub fn contents_diff(a: &Contents, b: &Contents, ttl: bool, now: u64) -> Option<String> {
    for (k, g) in a {
        match b.get(k) {
            Some(g2) if g2 == g => {}
            Some(g2) => {
                return Some(format!(
                    "key {}: (ts={}, expiry={}, {}B) vs (ts={}, expiry={}, {}B)",
                    show(k), g.ts, g.expiry, g.value.len(), g2.ts, g2.expiry, g2.value.len()
                ))
            }
            None => {
                if !(ttl && g.expiry != 0 && now > g.expiry) {
                    return Some(format!("key {} (ts={}, expiry={}) disappeared", show(k), g.ts, g.expiry));
                }
            }
        }
    }
    for k in b.keys() {
        if !a.contains_key(k) {
            return Some(format!("key {} appeared", show(k)));
        }
    }
    None
}

/// Recovery with one failing device call (a read of the scan, a repair write, a barrier): either
/// the open reports the failure, or it succeeds with exactly what an undisturbed recovery
/// exposes; and whatever it did to the device, a later undisturbed recovery of the device as it
/// stands still exposes the same contents - an I/O error is reported and never destroys data.
#[allow(clippy::too_many_arguments)]
pub(crate) fn faulty_recovery(
    sim: &Arc<Sim>,
    sc: &Scenario,
    env: &mut Env,
    image: &[u8],
    at_call: u64,
    r1: &Contents,
    label: &str,
    report: &mut BodyReport,
    pick: &mut Tape,
) -> Result<(), (String, String)> {
    use crate::disk::FaultKind;
    let write_kind = *pick.pick(&[FaultKind::WriteFailBefore, FaultKind::WriteFailAfter, FaultKind::WriteShort, FaultKind::WriteNoSpace]);
    let fsync_kind = *pick.pick(&[FaultKind::FsyncFail, FaultKind::FsyncFailAfter]);
    // whatever kind of call has this index fails (the device ignores kinds that do not fit the call)
    let persistent = pick.chance(1, 4);
    let plan = FaultPlan {
        at_call: vec![(at_call, FaultKind::ReadFail), (at_call, write_kind), (at_call, fsync_kind)],
        dead_from_call: persistent.then_some(at_call),
        ..FaultPlan::default()
    };
    let what = format!("{label} -> recovery with device call #{at_call} failing ({write_kind:?}/{fsync_kind:?}/ReadFail{})", if persistent { ", and every write and barrier after it" } else { "" });
    let outcome = match recover(sim, sc, env, image.to_vec(), Some(plan)) {
        Ok(o) => Some(o),
        Err((rule, detail)) => {
            // the failing call index can lie behind the open itself, in the reads with which the
            // harness takes the contents of the opened store: a read that fails there and is
            // reported as an I/O error is the fault being reported, not a violation
            let read_faults = env.disk.as_ref().map(|d| d.stats().faults_fired.get("ReadFail").copied().unwrap_or(0)).unwrap_or(0);
            if rule == "recovered-read-error" && read_faults > 0 && detail.contains("IoError") {
                report.count("faulty_recovery_fault_hit_a_later_read", 1);
                None
            } else {
                return Err((rule, detail));
            }
        }
    };
    let disk = env.disk.clone().unwrap();
    let fired: u64 = disk.stats().faults_fired.values().sum();
    if fired == 0 {
        return Ok(());
    }
    report.count("faulty_recoveries", 1);
    let now = sim.now_wall();
    match outcome {
        None => {}
        Some(Ok(rec)) => {
            report.count("faulty_recoveries_that_opened", 1);
            if let Some(diff) = contents_diff(r1, &rec.contents, sc.store.ttl, now) {
                return Err((
                    "recovery-swallowed-io-error".into(),
                    format!("[{what}] open() returned Ok but exposes something else than the undisturbed recovery of the same image: {diff}"),
                ));
            }
        }
        Some(Err(_)) => report.count("faulty_recoveries_refused", 1),
    }
    // the device as the failed (or successful) attempt left it; no power loss
    let as_is = disk.cache_image();
    env.close();
    match recover(sim, sc, env, as_is, None)? {
        Ok(rec) => {
            let now = sim.now_wall();
            if let Some(diff) = contents_diff(r1, &rec.contents, sc.store.ttl, now) {
                return Err((
                    "io-error-in-recovery-destroyed-data".into(),
                    format!("[{what}] an undisturbed recovery of the device as that attempt left it differs from the undisturbed recovery of the original image: {diff}"),
                ));
            }
        }
        Err(e) => {
            return Err((
                "reopen-failed-after-faulty-recovery".into(),
                format!("[{what}] the device as that attempt left it can no longer be opened: {e:?}"),
            ))
        }
    }
    Ok(())
}

#[allow(clippy::too_many_arguments)]
pub(crate) fn nested_crash(
    sim: &Arc<Sim>,
    sc: &Scenario,
    env: &mut Env,
    image: &[u8],
    crash_at_call: u64,
    r1: &Contents,
    label: &str,
    report: &mut BodyReport,
    pick: &mut Tape,
    depth: u32,
) -> Result<(), (String, String)> {
    // recovery interrupted by a power loss at its `crash_at_call`-th device call
    let plan = FaultPlan {
        crash_at_call: Some(crash_at_call),
        ..FaultPlan::default()
    };
    let outcome = recover(sim, sc, env, image.to_vec(), Some(plan))?;
    let disk = env.disk.clone().unwrap();
    let capture = match disk.take_capture() {
        Some(c) => c,
        None => {
            // recovery needed fewer calls this time: nothing to do
            drop(outcome);
            return Ok(());
        }
    };
    drop(outcome);
    env.close();
    report.count("nested_crash_points", 1);
    let unit = sc.knob("tear_unit", 512) as usize;
    let mut family = capture.family(unit, 3, true, 1, pick);
    let cap = if sc.knob("nested_points", 3) < 0 { 24 } else { 6 };
    if family.len() > cap {
        let mut kept: Vec<ImageVariant> = family.drain(..2).collect();
        while kept.len() < cap && !family.is_empty() {
            let i = pick.below(family.len() as u32) as usize;
            kept.push(family.swap_remove(i));
        }
        family = kept;
    }
    for variant in &family {
        let nested_image = capture.build(variant);
        let nlabel = format!("{label} -> recovery crashed@call{crash_at_call} {}", variant.label);
        let rec = match recover(sim, sc, env, nested_image.clone(), None)? {
            Ok(r) => r,
            Err(e) => {
                return Err((
                    "reopen-failed-after-crash-in-recovery".into(),
                    format!("[{nlabel}] the device cannot be opened after recovery itself was interrupted: {e:?}"),
                ))
            }
        };
        report.count("nested_images_recovered", 1);
        let now = sim.now_wall();
        if let Some(diff) = contents_diff(r1, &rec.contents, sc.store.ttl, now) {
            return Err((
                "recovery-not-restartable".into(),
                format!("[{nlabel}] contents differ from what the first successful recovery reported: {diff}"),
            ));
        }
        if depth < 2 && rec.device_calls > 0 && pick.chance(1, 3) {
            let p = pick.below(rec.device_calls as u32) as u64;
            nested_crash(sim, sc, env, &nested_image, p, r1, &nlabel, report, pick, depth + 1)?;
        }
    }
    Ok(())
}

/// The recovered store accepts new work: write, flush, read back, delete, flush, and the
/// durable image then decodes to exactly its contents.
pub fn probe_store(sim: &Arc<Sim>, env: &Env, r1: &Contents, label: &str) -> Result<(), (String, String)> {
    let store = env.st();
    let key = b"probe:after-recovery".to_vec();
    let value = harness::plain_value(250, 9, 1, 700);
    let e = |what: &str, e: feoxdb::FeoxError| ("probe-failed".to_string(), format!("[{label}] {what} on the recovered store failed: {e:?}"));
    sim.op_begin("probe");
    store.insert(&key, &value).map_err(|x| e("insert", x))?;
    match store.flush() {
        Ok(()) => {}
        Err(feoxdb::FeoxError::OutOfSpace) => {
            sim.op_end();
            return Ok(());
        }
        Err(x) => return Err(e("flush", x)),
    }
    let got = store.get(&key).map_err(|x| e("get", x))?;
    if got != value {
        return Err(("probe-failed".into(), format!("[{label}] probe key read back {} bytes, wrote {}", got.len(), value.len())));
    }
    // every recovered key still reads the same after the new write landed
    for (k, g) in r1 {
        match store.get(k) {
            Ok(v) if v == g.value => {}
            Ok(v) => {
                return Err((
                    "probe-damaged-neighbour".into(),
                    format!("[{label}] after writing a new key, get({}) returns {} bytes instead of the recovered {} bytes", show(k), v.len(), g.value.len()),
                ))
            }
            Err(feoxdb::FeoxError::KeyNotFound) if g.expiry != 0 => {}
            Err(x) => return Err(e("get of a recovered key", x)),
        }
    }
    match store.delete(&key) {
        Ok(()) => {}
        Err(feoxdb::FeoxError::OlderTimestamp) if store.verif_key(&key).is_some_and(|k| k.timestamp == u64::MAX) => {
            return Err((
                "collateral-max-timestamp".into(),
                format!("[{label}] delete(probe:after-recovery): refused as older on a key nobody pinned: its automatic insert was given the version u64::MAX because a recovered key of the same version-clock shard carries a timestamp next to the maximum"),
            ));
        }
        Err(x) => return Err(e("delete", x)),
    }
    store.flush().map_err(|x| e("second flush", x))?;
    sim.op_end();
    // durable image == recovered contents (minus keys that expired meanwhile)
    let mut model = harness::new_model(&env.cfg);
    model.cfg.format = store.verif_format_version();
    for k in store.verif_hash_keys() {
        if let Some(g) = r1.get(&k.key) {
            model.map.insert(k.key.clone(), g.clone());
        } else if let Ok(v) = store.get(&k.key) {
            model.map.insert(k.key.clone(), Gen { value: v, ts: k.timestamp, expiry: k.expiry });
        } else {
            // expired, still indexed: take it from the image side
            return Ok(());
        }
    }
    let quiet = store.verif_shard_counts().iter().all(|c| *c == 0) && store.verif_retirements_pending() == Some(0);
    if quiet {
        checks::check_durable_image(env, &model, true).map_err(|f| (f.rule.to_string(), format!("[{label}] after probe flush: {}", f.detail)))?;
        checks::check_partition(env).map_err(|f| (f.rule.to_string(), format!("[{label}] after probe flush: {}", f.detail)))?;
    }
    // C12 across recovery: an automatically timestamped write on a recovered key is accepted
    // and gets a version above the recovered one
    for (k, g) in r1.iter().take(3) {
        if g.ts == u64::MAX {
            continue;
        }
        match store.insert(k, b"auto-after-recovery") {
            Ok(_) => {
                let ts = store.verif_key(k).map(|v| v.timestamp).unwrap_or(0);
                if ts <= g.ts {
                    return Err((
                        "auto-ts-not-above-recovered".into(),
                        format!("[{label}] key {}: recovered with timestamp {} but the next automatic write got {ts}", show(k), g.ts),
                    ));
                }
            }
            Err(feoxdb::FeoxError::OlderTimestamp) => {
                return Err((
                    "auto-write-rejected-after-recovery".into(),
                    format!("[{label}] key {}: an automatically timestamped write after recovery was rejected as older (recovered timestamp {})", show(k), g.ts),
                ))
            }
            Err(_) => {}
        }
    }
    Ok(())
}
