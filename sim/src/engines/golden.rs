//! `golden`: device files written by the pinned release must decode (independent codec), open
//! and read back on the current tree, and stay in their own format when written to. Stage of C10.

use std::collections::BTreeMap;
use std::sync::Arc;

use crate::checks;
use crate::codec::{self, DecodeOptions};
use crate::disk::FaultPlan;
use crate::harness::{self, Env};
use crate::model::Gen;
use crate::runner::{BodyReport, Engine};
use crate::scenario::*;
use crate::sched::{Sim, SimConfig, Strategy};
use crate::tape::{mix, Tape};

pub struct GoldenEngine;

fn unhex(s: &str) -> Vec<u8> {
    (0..s.len() / 2).map(|i| u8::from_str_radix(&s[2 * i..2 * i + 2], 16).unwrap_or(0)).collect()
}

fn root() -> String {
    std::env::var("VERIF_ROOT").unwrap_or_else(|_| "/verif".into())
}

fn show(k: &[u8]) -> String {
    String::from_utf8_lossy(&k[..k.len().min(20)]).into_owned()
}

impl Engine for GoldenEngine {
    fn name(&self) -> &'static str {
        "golden"
    }

    fn nontrivial_rule(&self, _property: &str) -> String {
        "one evaluation = one golden file (v1/v2/v3, written by the pinned release) decoded, opened, compared, written to and re-decoded under one store configuration and schedule; distinct = distinct (file, configuration, schedule)".into()
    }

    fn generate(&self, property: &str, seed: u64, _tier: &str) -> Scenario {
        let mut c = Tape::fresh(mix(seed, 0xC0F6));
        let version = 1 + c.below(3);
        let sim = SimConfig {
            strategy: match c.below(3) {
                0 => Strategy::Random,
                1 => Strategy::Sticky(200),
                _ => Strategy::Pct(2),
            },
            tick_ns: *c.pick(&[0u64, 1_000]),
            shards: 1 + c.below(3) as usize,
            workers: 1 + c.below(2) as usize,
            hash_seed: c.u64(),
            ..SimConfig::default()
        };
        let store = StoreCfg {
            persistent: true,
            format: version,
            cache: c.chance(1, 2),
            ttl: c.chance(1, 2),
            hash_bits: 2 + c.below(6),
            data_blocks: 48,
            max_memory: None,
            sweeper: None,
            create_empty_file: false,
            allow_ambiguous: false,
            ring: 0,
        };
        Scenario {
            engine: "golden".into(),
            property: property.into(),
            seed,
            sim,
            store,
            keys: Vec::new(),
            clients: vec![Vec::new()],
            faults: FaultPlan::default(),
            knobs: BTreeMap::new(),
        }
    }

    fn body(&self, sim: &Arc<Sim>, sc: &Scenario) -> BodyReport {
        let mut report = BodyReport::default();
        let version = sc.store.format;
        let base = format!("{}/golden/golden_v{version}", root());
        let (image, expected_json) = match (std::fs::read(format!("{base}.feox")), std::fs::read(format!("{base}.json"))) {
            (Ok(i), Ok(j)) => (i, j),
            _ => {
                report.inconclusive = Some(format!("golden file {base}.feox/.json missing"));
                return report;
            }
        };
        let parsed: serde_json::Value = serde_json::from_slice(&expected_json).unwrap_or_default();
        let mut expected: BTreeMap<Vec<u8>, Gen> = BTreeMap::new();
        for r in parsed["records"].as_array().cloned().unwrap_or_default() {
            expected.insert(
                unhex(r["key"].as_str().unwrap_or("")),
                Gen {
                    value: unhex(r["value"].as_str().unwrap_or("")),
                    ts: r["timestamp"].as_u64().unwrap_or(0),
                    expiry: r["expiry"].as_u64().unwrap_or(0),
                },
            );
        }
        report.count(&format!("golden_v{version}"), 1);
        // 1. the independent reader agrees with what the release said it wrote
        match codec::decode_image(&image, DecodeOptions::default()) {
            Err(why) => report.fail("golden-rejected-by-independent-reader", format!("golden v{version}: {why}")),
            Ok(d) => {
                if d.version != version {
                    report.fail("golden-version", format!("golden v{version} decodes as v{}", d.version));
                }
                let got: BTreeMap<Vec<u8>, Gen> = d.live.iter().map(|(k, r)| (k.clone(), Gen { value: r.value.clone(), ts: r.timestamp, expiry: r.expiry })).collect();
                if got != expected {
                    report.fail("golden-vs-independent-reader", format!("golden v{version}: the independent reader finds {} records, the release recorded {}", got.len(), expected.len()));
                }
            }
        }
        if report.violation.is_some() {
            return report;
        }
        // 2. the current tree opens it and reads back exactly that
        let mut env = Env::new(Arc::clone(sim), sc.store.clone(), Vec::new(), "golden");
        env.install_image(image.clone());
        feoxdb::verif::process_restart();
        if let Err(e) = env.open() {
            report.fail("golden-open-failed", format!("golden v{version} cannot be opened by the current tree: {e:?}"));
            env.cleanup();
            return report;
        }
        let read_back = |env: &Env, expected: &BTreeMap<Vec<u8>, Gen>, when: &str| -> Result<(), (String, String)> {
            let keys = env.st().verif_hash_keys();
            if keys.len() != expected.len() {
                return Err(("golden-readback".into(), format!("{when}: store exposes {} keys, expected {}", keys.len(), expected.len())));
            }
            for k in keys {
                let Some(g) = expected.get(&k.key) else {
                    return Err(("golden-readback".into(), format!("{when}: unexpected key {}", show(&k.key))));
                };
                if k.timestamp != g.ts || k.expiry != g.expiry {
                    return Err(("golden-readback".into(), format!("{when}: key {} has (ts={}, expiry={}) instead of (ts={}, expiry={})", show(&k.key), k.timestamp, k.expiry, g.ts, g.expiry)));
                }
                match env.st().get(&k.key) {
                    Ok(v) if v == g.value => {}
                    other => return Err(("golden-readback".into(), format!("{when}: get({}) returned {:?} instead of the {} bytes written by the release", show(&k.key), other.map(|v| v.len()), g.value.len()))),
                }
            }
            Ok(())
        };
        if let Err((rule, detail)) = read_back(&env, &expected, &format!("golden v{version} after open")) {
            report.fail(&rule, detail);
        }
        // 3. writing to it keeps the device in its own format and leaves the other records alone
        if report.violation.is_none() {
            let store = Arc::clone(env.st());
            let new_key = b"written-by-current-tree".to_vec();
            let new_val = harness::plain_value(99, 1, 1, 5000);
            let r = store.insert(&new_key, &new_val).and_then(|_| store.insert(b"key:one-block", b"overwritten by the current tree").map(|_| ())).and_then(|_| store.delete(b"a")).and_then(|_| store.flush());
            match r {
                Err(e) => report.fail("golden-write-failed", format!("golden v{version}: writing to the device failed: {e:?}")),
                Ok(()) => {
                    let ts_new = store.verif_key(&new_key).map(|k| k.timestamp).unwrap_or(0);
                    let ts_over = store.verif_key(b"key:one-block").map(|k| k.timestamp).unwrap_or(0);
                    expected.insert(new_key.clone(), Gen { value: new_val, ts: ts_new, expiry: 0 });
                    expected.insert(b"key:one-block".to_vec(), Gen { value: b"overwritten by the current tree".to_vec(), ts: ts_over, expiry: 0 });
                    expected.remove(&b"a".to_vec());
                    let mut model = harness::new_model(&sc.store);
                    model.map = expected.clone();
                    drop(store);
                    let quiet = env.st().verif_shard_counts().iter().all(|c| *c == 0) && env.st().verif_retirements_pending() == Some(0);
                    if quiet {
                        match checks::check_durable_image(&env, &model, true) {
                            Ok(info) => {
                                if info.version != version {
                                    report.fail("legacy-format-not-kept", format!("a v{version} device became v{} after being written to", info.version));
                                }
                                report.count("golden_rewrite_checks", 1);
                            }
                            Err(f) => report.fail(f.rule, format!("golden v{version} after writing to it: {}", f.detail)),
                        }
                    }
                    // 4. and a clean restart still reads everything
                    if report.violation.is_none() {
                        env.close();
                        feoxdb::verif::process_restart();
                        match env.open() {
                            Ok(()) => {
                                if let Err((rule, detail)) = read_back(&env, &expected, &format!("golden v{version} after rewrite and restart")) {
                                    report.fail(&rule, detail);
                                }
                            }
                            Err(e) => report.fail("golden-open-failed", format!("golden v{version} cannot be reopened after being written to: {e:?}")),
                        }
                    }
                }
            }
        }
        // 5. power cut during the first session on the release's file: the first journal, record,
        // marker and metadata writes of the current tree land (or do not, or land torn) next to what
        // the release left in the reserved area; every record the session did not touch must
        // survive as the release wrote it, the touched ones in their old or new state
        if report.violation.is_none() {
            let mut pick = crate::tape::Tape::fresh(mix(sc.seed, 0x60CD));
            let mut env2 = Env::new(Arc::clone(sim), sc.store.clone(), Vec::new(), "goldcrash");
            env2.install_image(image.clone());
            feoxdb::verif::process_restart();
            if let Err(e) = env2.open() {
                report.fail("golden-open-failed", format!("golden v{version} cannot be opened by the current tree: {e:?}"));
            } else {
                let disk2 = env2.disk.clone().unwrap();
                let at = disk2.calls() + pick.range(0, 14);
                disk2.set_plan(FaultPlan { crash_at_call: Some(at), ..FaultPlan::default() });
                let store = Arc::clone(env2.st());
                let new_key = b"written-by-current-tree".to_vec();
                let _ = store.insert(&new_key, &harness::plain_value(99, 1, 1, 5000));
                let _ = store.insert(b"key:one-block", b"overwritten by the current tree");
                let _ = store.delete(b"a");
                // in half of the runs the first batch names so many extents that its journal image
                // spans several sectors (a single-sector write cannot be torn)
                let crowd = if pick.chance(1, 2) { 64 + pick.below(60) as usize } else { 0 };
                for i in 0..crowd {
                    let _ = store.insert(format!("gc:{i:03}").as_bytes(), &harness::plain_value(98, 2, i as u32, 20 + i));
                }
                let _ = store.flush();
                drop(store);
                let capture = disk2.take_capture().unwrap_or_else(|| disk2.capture_now());
                disk2.kill();
                let family = capture.family(512, 3, true, 2, &mut pick);
                let touched: [&[u8]; 3] = [b"written-by-current-tree", b"key:one-block", b"a"];
                report.count(if crowd > 0 { "golden_crash_multi_sector_journal" } else { "golden_crash_small_batch" }, 1);
                let mut original: BTreeMap<Vec<u8>, Gen> = BTreeMap::new();
                for r in parsed["records"].as_array().cloned().unwrap_or_default() {
                    original.insert(unhex(r["key"].as_str().unwrap_or("")), Gen { value: unhex(r["value"].as_str().unwrap_or("")), ts: r["timestamp"].as_u64().unwrap_or(0), expiry: r["expiry"].as_u64().unwrap_or(0) });
                }
                let mut env3 = Env::new(Arc::clone(sim), sc.store.clone(), Vec::new(), "goldrec");
                for v in family.iter().take(6) {
                    env3.close();
                    env3.install_image(capture.build(v));
                    feoxdb::verif::process_restart();
                    if let Err(e) = env3.open() {
                        report.fail("reopen-failed-after-crash", format!("golden v{version}, power cut at device call {at} of the first session ({}): the file cannot be opened: {e:?}", v.label));
                        break;
                    }
                    let mut bad = None;
                    for (k, g) in original.iter().filter(|(k, _)| !touched.contains(&k.as_slice())) {
                        match (env3.st().verif_key(k), env3.st().get(k)) {
                            (Some(o), Ok(val)) if o.timestamp == g.ts && o.expiry == g.expiry && val == g.value => {}
                            (o, val) => {
                                bad = Some(format!("key {} written by the release reads {:?} / {:?} bytes", show(k), o.map(|o| o.timestamp), val.map(|v| v.len())));
                                break;
                            }
                        }
                    }
                    if let Some(why) = bad {
                        report.fail("golden-record-lost-after-crash", format!("golden v{version}, power cut at device call {at} of the first session on the file ({}): {why}", v.label));
                        break;
                    }
                    report.count("golden_crash_images_recovered", 1);
                }
                env3.cleanup();
            }
            env2.cleanup();
        }
        report.nontrivial = true;
        report.ops = expected.len() as u64;
        report.extra_hash = mix(version as u64, sc.store.cache as u64 | (sc.store.ttl as u64) << 1 | (sc.store.hash_bits as u64) << 2);
        if let Some(d) = &env.disk {
            report.disk = d.stats();
        }
        env.cleanup();
        report
    }
}
