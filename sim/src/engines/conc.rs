//! `conc`: 2-4 clients issue short operation sequences on a few shared keys under the seeded
//! scheduler, with the background flusher (and optionally the TTL sweeper) running.
//!
//! Oracle: the hashed index is sampled at every scheduling step (and right before/after every
//! call), which yields the exact sequence of generations installed per key - the
//! linearisation order of all successful modifications. Every successful modification must be
//! attributable to exactly one installed generation inside its call interval, every installed
//! generation to exactly one successful modification (or to the expiry of an expired
//! generation); each transition must respect last-writer-wins; every read, refusal and
//! no-swap must be justified by a state the key had inside the call interval, or by one of
//! the two conservative deviations the property permits.
//! Serves C07 C08 C13 C14 C16(b) C11 C18 (and C20 under AddressSanitizer).

use std::collections::BTreeMap;
use std::sync::{Arc, Mutex};
use std::time::Duration;

use feoxdb::FeoxStore;

use crate::checks;
use crate::disk::FaultPlan;
use crate::harness::{self, Env};
use crate::model::{apply_patch, Call, ErrKind, Res};
use crate::runner::{BodyReport, Engine};
use crate::scenario::*;
use crate::sched::{Sim, SimConfig, Strategy};
use crate::tape::{mix, Tape};

pub struct ConcEngine;

#[derive(Clone, Debug, PartialEq, Eq)]
struct KState {
    ts: u64,
    len: usize,
    expiry: u64,
}

#[derive(Clone, Debug)]
struct Sample {
    /// global event number at which the new state was first seen
    at: u64,
    wall: u64,
    state: Option<KState>,
}

#[derive(Default)]
struct Timeline {
    keys: Vec<Vec<u8>>,
    last: Vec<Option<KState>>,
    samples: Vec<Vec<Sample>>,
    mem_limit: Option<usize>,
    mem_violation: Option<String>,
    max_mem: usize,
}

#[derive(Clone, Debug)]
struct Rec {
    client: usize,
    idx: usize,
    call: Call,
    invoke: u64,
    ret: u64,
    wall0: u64,
    wall1: u64,
    res: Res,
}

fn show(k: &[u8]) -> String {
    String::from_utf8_lossy(&k[..k.len().min(24)]).into_owned()
}

fn sample_now(store: &FeoxStore, sim: &Sim, tl: &Mutex<Timeline>) {
    let mut t = tl.lock().unwrap();
    let at = sim.current_event();
    let wall = sim.now_wall();
    for i in 0..t.keys.len() {
        let cur = store.verif_key(&t.keys[i]).map(|k| KState {
            ts: k.timestamp,
            len: k.value_len,
            expiry: k.expiry,
        });
        if cur != t.last[i] {
            t.last[i] = cur.clone();
            t.samples[i].push(Sample { at, wall, state: cur });
        }
    }
    let mem = store.memory_usage();
    t.max_mem = t.max_mem.max(mem);
    if let Some(limit) = t.mem_limit {
        if mem > limit && t.mem_violation.is_none() {
            t.mem_violation = Some(format!("memory_usage() = {mem} exceeds the configured limit {limit} at event {at}"));
        }
    }
}

struct Profile {
    persistent: u32,
    ttl: u32,
    sweeper: bool,
    tiny_device: bool,
    tight_memory: bool,
    reads: u32,
    ranges: u32,
    flushes: u32,
    big_values: bool,
    cache: Option<bool>,
    time_ops: u32,
}

fn profile(property: &str) -> Profile {
    let base = Profile {
        persistent: 50,
        ttl: 20,
        sweeper: false,
        tiny_device: false,
        tight_memory: false,
        reads: 20,
        ranges: 3,
        flushes: 4,
        big_values: false,
        cache: None,
        time_ops: 0,
    };
    match property {
        "C08" => Profile { persistent: 100, tiny_device: true, reads: 40, flushes: 10, big_values: true, ttl: 40, ..base },
        "C13" => Profile { tight_memory: true, persistent: 30, ..base },
        "C14" => Profile { ranges: 30, reads: 10, ..base },
        "C16" => Profile { persistent: 100, cache: Some(true), reads: 40, flushes: 10, tiny_device: true, big_values: true, ..base },
        "C11" => Profile { ttl: 100, sweeper: true, time_ops: 15, reads: 35, ..base },
        "C18" => Profile { persistent: 100, flushes: 25, tiny_device: true, big_values: true, ..base },
        _ => base,
    }
}

impl Engine for ConcEngine {
    fn name(&self) -> &'static str {
        "conc"
    }

    fn nontrivial_rule(&self, property: &str) -> String {
        match property {
            "C08" => "run had >= 1 read of a key served from the device (extent pinned) while >= 1 modification of that key overlapped some read; distinct = distinct hash of (scenario, interleaving, results)".into(),
            "C13" => "run had >= 2 clients mutating under a memory limit with the limit sampled at every scheduling step; distinct by case hash".into(),
            "C14" => "run executed >= 1 range query that overlapped a modification of a key in range; distinct by case hash".into(),
            "C11" => "run had the sweeper thread scheduled and >= 1 read of a TTL key; distinct by case hash".into(),
            "C18" => "run had >= 2 threads inside flush()/writes at the same time; distinct by case hash".into(),
            _ => "run had >= 2 calls on the same key overlapping in time (by global event numbers) of which >= 1 was a modification; distinct = distinct hash of (scenario, interleaving, results)".into(),
        }
    }

    fn generate(&self, property: &str, seed: u64, tier: &str) -> Scenario {
        let p = profile(property);
        let mut c = Tape::fresh(mix(seed, 0xC0F6));
        let mut w = Tape::fresh(mix(seed, 0x3017));
        let persistent = c.chance(p.persistent, 100);
        let ttl = c.chance(p.ttl, 100);
        let n_clients = 2 + c.below(3) as usize;
        let n_keys = 1 + c.below(3) as usize;
        let keys: Vec<Vec<u8>> = (0..n_keys)
            .map(|i| match c.below(3) {
                0 => format!("k{i}").into_bytes(),
                1 => format!("key:{i}:shared").into_bytes(),
                _ => {
                    let mut k = format!("user:{i}").into_bytes();
                    k.resize(40 + i, b'_');
                    k
                }
            })
            .collect();
        let data_blocks = if p.tiny_device { *c.pick(&[8u64, 10, 12, 16]) } else { *c.pick(&[32u64, 64]) };
        let overhead = FeoxStore::verif_record_overhead();
        // own tape: a quarter of the limited profile's runs have no limit at all (the admission then
        // takes its unconditional branch; the accounting has to be exact all the same)
        let unlimited = p.tight_memory && Tape::fresh(mix(seed, 0x0717)).chance(1, 4);
        let max_memory = if p.tight_memory && !unlimited {
            Some((overhead + 80) * (1 + c.below(3) as usize) + c.below(3000) as usize)
        } else {
            None
        };
        let shards = 1 + c.below(3) as usize;
        let strategy = match c.below(5) {
            0 | 1 => Strategy::Random,
            2 => Strategy::Sticky(*c.pick(&[100u32, 300, 500])),
            3 => Strategy::Pct(1 + c.below(3)),
            _ => Strategy::Starve(c.below(8)),
        };
        let sim = SimConfig {
            strategy,
            tick_ns: *c.pick(&[0u64, 100, 10_000, 1_000_000]),
            shards,
            workers: 1 + c.below(shards as u32) as usize,
            hash_seed: c.u64(),
            pct_horizon: 600,
            ..SimConfig::default()
        };
        let store = StoreCfg {
            persistent,
            format: if persistent { *c.pick(&[3u32, 3, 3, 2]) } else { 3 },
            cache: p.cache.unwrap_or_else(|| c.chance(1, 2)),
            ttl,
            hash_bits: 2 + c.below(4),
            data_blocks,
            max_memory,
            sweeper: (p.sweeper && ttl).then(|| SweeperCfg { interval_ms: *c.pick(&[1u64, 5, 50]), sample_size: 1 + c.below(4) as usize }),
            create_empty_file: false,
            allow_ambiguous: false,
            ring: gen_ring(seed),
        };
        // unique value lengths and unique explicit timestamps across the whole scenario
        let mut next_len = 16usize;
        let epoch = sim.epoch_ns;
        let mut ts_pool: Vec<u64> = (0..64).map(|i| epoch.wrapping_sub(500) + 37 * i as u64).collect();
        for i in (1..ts_pool.len()).rev() {
            let j = c.below(i as u32 + 1) as usize;
            ts_pool.swap(i, j);
        }
        let mut clients = Vec::new();
        let max_ops = if tier == "thorough" { 10 } else { 7 };
        let mut incr_bit = 0u32;
        // the explicit timestamp last handed out per key: re-used now and then, so that a key
        // can be deleted and re-created with exactly the version it had before (generations
        // stay identifiable by their unique lengths)
        let mut last_explicit: Vec<Option<u64>> = vec![None; n_keys];
        for _ in 0..n_clients {
            let n_ops = 2 + w.below(max_ops - 1) as usize;
            let mut ops = Vec::new();
            for _ in 0..n_ops {
                let key = w.below(n_keys as u32) as usize;
                let mut val = |w: &mut Tape| {
                    next_len += 1;
                    let big = p.big_values && w.chance(1, 3);
                    let base = if big { *w.pick(&[4090usize, 8200]) } else { 0 };
                    Val { len: base + next_len, kind: ValKind::Plain }
                };
                let reuse = last_explicit[key];
                let mut fresh_explicit: Option<u64> = None;
                let mut ts = |w: &mut Tape, pool: &mut Vec<u64>| {
                    if w.chance(45, 100) && !pool.is_empty() {
                        if let (Some(t), true) = (reuse, w.chance(1, 4)) {
                            return Ts::Abs(t);
                        }
                        let t = pool.pop().unwrap();
                        fresh_explicit = Some(t);
                        Ts::Abs(t)
                    } else {
                        Ts::Auto
                    }
                };
                let roll = w.below(100);
                let op = if roll < p.reads {
                    Op::Get { key, bytes: w.chance(1, 2) }
                } else if roll < p.reads + p.ranges {
                    Op::Range {
                        start: if w.chance(1, 2) { Bound::Empty } else { Bound::Key(w.below(n_keys as u32) as usize) },
                        end: if w.chance(1, 2) { Bound::Max } else { Bound::Key(w.below(n_keys as u32) as usize) },
                        limit: *w.pick(&[1usize, 2, 100]),
                    }
                } else if roll < p.reads + p.ranges + p.flushes && persistent {
                    Op::Flush
                } else if roll < p.reads + p.ranges + p.flushes + p.time_ops {
                    Op::Advance { ns: *w.pick(&[500_000u64, 5_000_000, 1_100_000_000, 2_500_000_000]) }
                } else {
                    match w.below(16) {
                        0..=4 => Op::Insert {
                            key,
                            val: val(&mut w),
                            ts: ts(&mut w, &mut ts_pool),
                            ttl: if ttl && w.chance(1, 2) { *w.pick(&[1u64, 2, 3600]) } else { 0 },
                            bytes: w.chance(1, 2),
                        },
                        5 | 6 => Op::Delete { key, ts: ts(&mut w, &mut ts_pool) },
                        7 | 8 => Op::Cas { key, expect: Expect::Current, val: val(&mut w), ts: ts(&mut w, &mut ts_pool), ttl: 0 },
                        9 | 10 => {
                            incr_bit += 1;
                            Op::Incr { key, delta: 1i64 << (incr_bit % 40), ts: Ts::Auto, ttl: 0 }
                        }
                        11 | 12 => Op::InsertIfAbsent { key, val: val(&mut w) },
                        13 => {
                            next_len += 1;
                            Op::Insert { key, val: Val { len: 300 + next_len, kind: ValKind::Json }, ts: ts(&mut w, &mut ts_pool), ttl: 0, bytes: false }
                        }
                        14 => Op::JsonPatch { key, patch: Patch::AddField, ts: ts(&mut w, &mut ts_pool) },
                        _ if ttl => Op::UpdateTtl { key, ttl: *w.pick(&[0u64, 1, 3600]) },
                        _ => Op::Insert { key, val: Val { len: 8, kind: ValKind::Counter(0) }, ts: Ts::Auto, ttl: 0, bytes: false },
                    }
                };
                if let Some(t) = fresh_explicit {
                    last_explicit[key] = Some(t);
                }
                ops.push(op);
            }
            clients.push(ops);
        }
        let mut knobs = BTreeMap::new();
        knobs.insert("prefill".into(), c.below(3) as i64);
        // "recreate" family (own tape): a read-modify-write is in flight on a key that carries an
        // explicit version while another client deletes the key and creates it again with exactly
        // that version - same version, different generation
        let mut a = Tape::fresh(mix(seed, 0xABA));
        if matches!(property, "C07" | "C18") && a.chance(1, 8) {
            let t = epoch.wrapping_sub(400) + a.below(300) as u64;
            let kind = a.below(3);
            let (first, second) = match kind {
                0 => (Val { len: 8, kind: ValKind::Counter(5) }, Val { len: 8, kind: ValKind::Counter(1 << 20) }),
                1 => (Val { len: 2001, kind: ValKind::Plain }, Val { len: 2002, kind: ValKind::Plain }),
                _ => (Val { len: 2301, kind: ValKind::Json }, Val { len: 2342, kind: ValKind::Json }),
            };
            let rmw = match kind {
                0 => Op::Incr { key: 0, delta: 1 << 8, ts: Ts::Auto, ttl: 0 },
                1 => Op::Cas { key: 0, expect: Expect::Current, val: Val { len: 2003, kind: ValKind::Plain }, ts: Ts::Auto, ttl: 0 },
                _ => Op::JsonPatch { key: 0, patch: Patch::AddField, ts: Ts::Auto },
            };
            let mut first_client = vec![Op::Insert { key: 0, val: first, ts: Ts::Abs(t), ttl: 0, bytes: a.chance(1, 2) }];
            if persistent && a.chance(1, 2) {
                first_client.push(Op::Flush);
            }
            first_client.push(rmw.clone());
            let mut second_client = vec![
                Op::Get { key: 0, bytes: false },
                Op::Delete { key: 0, ts: Ts::Auto },
                Op::Insert { key: 0, val: second, ts: Ts::Abs(t), ttl: 0, bytes: a.chance(1, 2) },
            ];
            if a.chance(1, 2) {
                second_client.push(Op::Get { key: 0, bytes: true });
            }
            clients.truncate(1);
            clients[0].retain(|op| matches!(op, Op::Get { .. } | Op::Range { .. }));
            clients.push(first_client);
            clients.push(second_client);
            knobs.insert("prefill".into(), 0);
            knobs.insert("recreate".into(), 1);
        }
        // "pin window" family (own tape, C08/C16/C18): any reader is held between the check of
        // the retired bit and the increment of the reader count of the extent pin word, long
        // enough for the flusher to retire, mark and reuse the extent meanwhile
        let mut pw = Tape::fresh(mix(seed, 0x9142));
        let mut sim = sim;
        if matches!(property, "C08" | "C16" | "C18") && persistent && pw.chance(1, 5) {
            sim.strategy = Strategy::Starve(crate::sched::HOLD_ANY);
            sim.hold_sites = vec!["pin.between_check_and_increment".to_string()];
            sim.hold_steps = *pw.pick(&[15u64, 40, 120]);
            knobs.insert("pin_window".into(), 1);
        }
        // "sandwich" family (own tape, C08/C16/C18): three single-block records lie next to each other
        // on the device; a reader of the middle one is held with its extent pinned while a writer
        // supersedes all three and flushes - the retirement pass then holds three adjacent extents
        // of which the middle one must be left alone
        let mut sd = Tape::fresh(mix(seed, 0x5A4D));
        let mut sim = sim;
        let mut store = store;
        let mut keys = keys;
        if matches!(property, "C08" | "C16" | "C18") && persistent && knobs.get("pin_window").is_none() && sd.chance(1, 10) {
            keys = vec![b"sa".to_vec(), b"sb".to_vec(), b"sc".to_vec()];
            store.cache = false;
            store.ttl = false;
            store.sweeper = None;
            store.data_blocks = 16;
            sim.shards = 1;
            sim.workers = 1;
            sim.strategy = Strategy::Starve(crate::sched::HOLD_ANY);
            sim.hold_sites = vec!["after_sector_load".to_string()];
            sim.hold_steps = *sd.pick(&[80u64, 200, 500]);
            let mut writer = Vec::new();
            let mut order = vec![0usize, 1, 2];
            for i in (1..order.len()).rev() {
                order.swap(i, sd.below(i as u32 + 1) as usize);
            }
            for (n, key) in order.into_iter().enumerate() {
                writer.push(if sd.chance(1, 3) { Op::Delete { key, ts: Ts::Auto } } else { Op::Insert { key, val: Val { len: 2100 + n, kind: ValKind::Plain }, ts: Ts::Auto, ttl: 0, bytes: false } });
            }
            writer.push(Op::Flush);
            let reader = vec![
                if sd.chance(1, 4) { Op::Range { start: Bound::Empty, end: Bound::Max, limit: 100 } } else { Op::Get { key: 1, bytes: sd.chance(1, 2) } },
                Op::Get { key: 1, bytes: false },
            ];
            clients = vec![reader, writer];
            if sd.chance(1, 2) {
                clients.push(vec![Op::Flush]);
            }
            knobs.insert("prefill".into(), 3);
            knobs.insert("prefill_flush".into(), 1);
            knobs.insert("sandwich".into(), 1);
        }
        // "offloaded rmw" family (own tape, C07/C08/C16/C18): a counter lives on the device only; an
        // increment has fetched its operand and is held in front of its guarded swap while another
        // client replaces the generation and the flusher writes the replacement out and offloads it
        // too - the record under the guard is then offloaded like the one the operand came from,
        // but it is a different generation
        let mut ofl = Tape::fresh(mix(seed, 0x0FF1));
        if matches!(property, "C07" | "C08" | "C16" | "C18") && persistent && knobs.get("pin_window").is_none() && knobs.get("sandwich").is_none() && knobs.get("recreate").is_none() && ofl.chance(1, 10) {
            store.ttl = false;
            store.sweeper = None;
            sim.shards = 1;
            sim.workers = 1;
            sim.strategy = Strategy::Starve(crate::sched::HOLD_ANY);
            sim.hold_sites = vec!["incr.before_swap".to_string()];
            sim.hold_steps = *ofl.pick(&[150u64, 400, 1200]);
            let explicit_flush = ofl.chance(2, 3);
            sim.hold_through_idle = !explicit_flush;
            let replacement = Val { len: 8, kind: ValKind::Counter(1 << (12 + ofl.below(12))) };
            let mut other = vec![if ofl.chance(1, 2) {
                Op::Insert { key: 0, val: replacement, ts: Ts::Auto, ttl: 0, bytes: ofl.chance(1, 2) }
            } else {
                Op::Cas { key: 0, expect: Expect::Current, val: replacement, ts: Ts::Auto, ttl: 0 }
            }];
            if explicit_flush {
                other.push(Op::Flush);
            }
            other.push(Op::Get { key: 0, bytes: false });
            let incr = vec![Op::Incr { key: 0, delta: 1 << ofl.below(8), ts: Ts::Auto, ttl: 0 }, Op::Get { key: 0, bytes: false }];
            clients = vec![incr, other];
            if ofl.chance(1, 3) {
                clients.push(vec![Op::Get { key: 0, bytes: true }, Op::Get { key: 0, bytes: false }]);
            }
            knobs.insert("prefill".into(), 1);
            knobs.insert("prefill_flush".into(), 1);
            knobs.insert("prefill_counter".into(), 1);
            knobs.insert("offloaded_rmw".into(), 1);
        }
        // "expired rmw" family (own tape): a key arrives already expired while the sweeper runs,
        // and one client follows up with two automatic writes in the same clock tick - the
        // versions handed out around a retirement somebody else performed must still increase
        let mut x = Tape::fresh(mix(seed, 0xE8A1));
        if matches!(property, "C11" | "C18") && ttl && x.chance(1, 8) {
            sim.tick_ns = 0;
            store.sweeper = Some(SweeperCfg { interval_ms: 1, sample_size: 1 + x.below(3) as usize });
            let t = epoch.wrapping_sub(450) + x.below(300) as u64;
            let auto_write = |x: &mut Tape, len: usize| match x.below(5) {
                0 | 1 => Op::Incr { key: 0, delta: 1 << (3 + x.below(20)), ts: Ts::Auto, ttl: 0 },
                2 => Op::Insert { key: 0, val: Val { len, kind: ValKind::Plain }, ts: Ts::Auto, ttl: 0, bytes: false },
                3 => Op::Delete { key: 0, ts: Ts::Auto },
                _ => Op::InsertIfAbsent { key: 0, val: Val { len: len + 1, kind: ValKind::Plain } },
            };
            let writer = vec![
                Op::Advance { ns: 2_500_000_000 },
                Op::Insert { key: 0, val: Val { len: 3001, kind: ValKind::Plain }, ts: Ts::Abs(t), ttl: 1, bytes: x.chance(1, 2) },
                Op::Get { key: 0, bytes: false },
                auto_write(&mut x, 3002),
                auto_write(&mut x, 3004),
                auto_write(&mut x, 3006),
            ];
            clients.truncate(2);
            for c in clients.iter_mut() {
                c.retain(|op| matches!(op, Op::Get { .. } | Op::Range { .. }));
            }
            clients.push(writer);
            knobs.insert("prefill".into(), 0);
            knobs.insert("expired_rmw".into(), 1);
        }
        // "long scan" family (own tape, C14): a store of 300-340 keys, so that a full range query
        // passes its re-pin interval (256 visited entries); an intruder waits until the scanner
        // stands on an entry next to that boundary and then deletes, replaces or re-creates exactly
        // that key (or a neighbour) while the scanner is parked there. Every untouched key has to
        // be returned exactly once.
        let mut ls = Tape::fresh(mix(seed, 0x105C));
        let (sim, store, keys, clients) = if property == "C14" && ls.chance(1, 40) {
            let n = 300 + ls.below(40) as usize;
            let keys: Vec<Vec<u8>> = (0..n).map(|i| format!("ls{i:04}").into_bytes()).collect();
            let at = 254 + ls.below(4) as u64; // seam passes before the intruder moves: the scanner stands on entry at-1
            let target = (at as i64 - 1 + ls.below(3) as i64 - 1).clamp(0, n as i64 - 1) as usize;
            let mut scanner = vec![Op::Range { start: Bound::Empty, end: Bound::Max, limit: 1000 }];
            if ls.chance(1, 2) {
                scanner.push(Op::Range { start: Bound::Key(10), end: Bound::Max, limit: 400 });
            }
            let mut intruder = vec![Op::WaitSite { site: "range.after_slot_load".into(), hits: at, max_polls: 4000 }];
            match ls.below(4) {
                0 | 1 => intruder.push(Op::Delete { key: target, ts: Ts::Auto }),
                2 => {
                    intruder.push(Op::Delete { key: target, ts: Ts::Auto });
                    intruder.push(Op::Insert { key: target, val: Val { len: 3100, kind: ValKind::Plain }, ts: Ts::Auto, ttl: 0, bytes: false });
                }
                _ => intruder.push(Op::Insert { key: target, val: Val { len: 3101, kind: ValKind::Plain }, ts: Ts::Auto, ttl: 0, bytes: false }),
            }
            if ls.chance(1, 2) {
                intruder.push(Op::Delete { key: (target + 1).min(n - 1), ts: Ts::Auto });
            }
            knobs.insert("prefill".into(), n as i64);
            knobs.insert("prefill_counter".into(), 0);
            knobs.insert("long_scan".into(), 1);
            let sim = SimConfig { strategy: if ls.chance(1, 2) { Strategy::Random } else { Strategy::Sticky(300) }, max_steps: 1_500_000, ..sim };
            let store = StoreCfg { persistent: false, cache: false, ttl: false, sweeper: None, max_memory: None, hash_bits: 6, ..store };
            (sim, store, keys, vec![scanner, intruder])
        } else {
            (sim, store, keys, clients)
        };
        Scenario {
            engine: "conc".into(),
            property: property.into(),
            seed,
            sim,
            store,
            keys,
            clients,
            faults: FaultPlan::default(),
            knobs,
        }
    }

    fn body(&self, sim: &Arc<Sim>, sc: &Scenario) -> BodyReport {
        let mut report = BodyReport::default();
        let mut env = Env::new(Arc::clone(sim), sc.store.clone(), sc.keys.clone(), "conc");
        if sc.store.persistent {
            env.create_device();
            if let Some(d) = &env.disk {
                d.set_monitor_writes(true);
            }
        }
        if let Err(e) = env.open() {
            report.fail("open-failed", format!("{e:?}"));
            env.cleanup();
            return report;
        }
        let store = Arc::clone(env.st());
        let tl = Arc::new(Mutex::new(Timeline {
            keys: sc.keys.clone(),
            last: vec![None; sc.keys.len()],
            samples: vec![Vec::new(); sc.keys.len()],
            mem_limit: sc.store.max_memory,
            mem_violation: None,
            max_mem: 0,
        }));
        let history: Arc<Mutex<Vec<Rec>>> = Arc::new(Mutex::new(Vec::new()));
        // values by length (unique), for attribution and genuineness
        let values: Arc<Mutex<BTreeMap<usize, Vec<u8>>>> = Arc::new(Mutex::new(BTreeMap::new()));

        // prefill some keys sequentially (recorded like any other call)
        let prefill = sc.knob("prefill", 0) as usize;
        {
            let (store_m, sim_m, tl_m) = (Arc::clone(&store), Arc::clone(sim), Arc::clone(&tl));
            sim.set_monitor(Some(Box::new(move |_| {
                sample_now(&store_m, &sim_m, &tl_m);
                None
            })));
        }
        for i in 0..prefill.min(sc.keys.len()) {
            let val = if sc.knob("prefill_counter", 0) == 1 { Val { len: 8, kind: ValKind::Counter(5) } } else { Val { len: 900 + i, kind: ValKind::Plain } };
            let ops = vec![Op::Insert { key: i, val, ts: Ts::Auto, ttl: 0, bytes: false }];
            client_loop(sim, &store, &sc.keys, &ops, 200 + i, sc.store.format, &tl, &history, &values);
        }
        if prefill > 0 && sc.store.persistent && (sc.seed % 2 == 0 || sc.knob("prefill_flush", 0) == 1) {
            let _ = store.flush();
        }
        let mut handles = Vec::new();
        for (ci, ops) in sc.clients.iter().enumerate() {
            let (sim2, store2, keys2, ops2, tl2, h2, v2, fmt) = (
                Arc::clone(sim),
                Arc::clone(&store),
                sc.keys.clone(),
                ops.clone(),
                Arc::clone(&tl),
                Arc::clone(&history),
                Arc::clone(&values),
                sc.store.format,
            );
            feoxdb::verif::thread::name_next_spawn("client");
            handles.push(feoxdb::verif::thread::spawn(move || {
                client_loop(&sim2, &store2, &keys2, &ops2, ci, fmt, &tl2, &h2, &v2);
            }));
        }
        for h in handles {
            let _ = h.join();
        }
        sample_now(&store, sim, &tl);
        if sc.store.persistent {
            env.settle();
            sample_now(&store, sim, &tl);
        }
        sim.set_monitor(None);

        // ---- analysis
        let hist = history.lock().unwrap().clone();
        let vals = values.lock().unwrap().clone();
        let tline = std::mem::take(&mut *tl.lock().unwrap());
        report.ops = hist.len() as u64;
        if let Some(v) = &tline.mem_violation {
            report.fail("memory-limit-exceeded", v.clone());
        }
        let mut overlapping_mod = 0u64;
        let mut disk_reads_with_overlap = 0u64;
        for (ki, key) in sc.keys.iter().enumerate() {
            let ops: Vec<&Rec> = hist.iter().filter(|r| r.call.key() == Some(key.as_slice())).collect();
            for a in &ops {
                for b in &ops {
                    if (a.client, a.idx) != (b.client, b.idx) && a.invoke < b.ret && b.invoke < a.ret && is_mutation(&a.call) {
                        overlapping_mod += 1;
                    }
                }
            }
            if let Err((rule, detail)) = analyse_key(key, &ops, &tline.samples[ki], &vals, sc.store.ttl, &mut report) {
                report.fail(&rule, detail);
            }
        }
        for r in hist.iter().filter(|r| matches!(r.call, Call::Range { .. })) {
            if let Err((rule, detail)) = analyse_range(r, sc, &tline, &hist, &vals, &mut report) {
                report.fail(&rule, detail);
            }
        }
        for r in &hist {
            report.count(&format!("op.{}", r.call.name()), 1);
            if let Res::Err(e) = &r.res {
                report.count(&format!("err.{e:?}").chars().take(40).collect::<String>(), 1);
            }
        }
        let stats = sim.stats();
        if stats.pin_events > 0 {
            disk_reads_with_overlap = overlapping_mod.min(stats.pin_events);
        }
        report.count("overlapping_modifications", overlapping_mod);
        report.count("extent_pins", stats.pin_events);

        // ---- quiescent end state
        if report.violation.is_none() {
            if let Err(f) = checks::check_indexes_agree(&env) {
                report.fail(f.rule, format!("at quiescence: {}", f.detail));
            }
            let overhead = FeoxStore::verif_record_overhead();
            // the sweeper removes a key and adjusts the counters in two steps with a preemption
            // point in between: quiescence means it is asleep between two passes
            let mut keys = store.verif_hash_keys();
            let mut want: usize = keys.iter().map(|k| overhead + k.key.len() + k.value_len).sum();
            if let Some(sw) = &sc.store.sweeper {
                for _ in 0..6 {
                    if store.memory_usage() == want && store.len() == keys.len() {
                        break;
                    }
                    sim.sleep(Duration::from_millis(sw.interval_ms * 3 + 1));
                    keys = store.verif_hash_keys();
                    want = keys.iter().map(|k| overhead + k.key.len() + k.value_len).sum();
                }
            }
            if store.memory_usage() != want {
                report.fail(
                    "memory-accounting",
                    format!("at quiescence memory_usage() = {} but sum over {} live keys = {want}", store.memory_usage(), keys.len()),
                );
            }
            if store.len() != keys.len() {
                report.fail("len-mismatch", format!("at quiescence len() = {} but {} keys are indexed", store.len(), keys.len()));
            }
            // final read-back: every key reads the value of its last installed generation
            for (ki, key) in sc.keys.iter().enumerate() {
                let last = tline.samples[ki].last().and_then(|s| s.state.clone());
                let got = store.get(key);
                match (last, got) {
                    (None, Err(feoxdb::FeoxError::KeyNotFound)) => {}
                    (Some(st), Ok(v)) => {
                        if v.len() != st.len {
                            report.fail("final-read-mismatch", format!("key {}: final get returns {} bytes, index says {}", show(key), v.len(), st.len));
                        } else if let Some(w) = vals.get(&st.len) {
                            if st.len != 8 && *w != v {
                                report.fail("final-read-mismatch", format!("key {}: final get returns bytes that differ from the {}-byte value written", show(key), st.len));
                            }
                        }
                    }
                    (Some(st), Err(feoxdb::FeoxError::KeyNotFound)) if st.expiry != 0 => {}
                    (None, Ok(_)) if sc.store.sweeper.is_some() => {}
                    (l, g) => report.fail("final-read-mismatch", format!("key {}: index state {l:?} but final get says {:?}", show(key), g.map(|v| v.len()))),
                }
            }
            if sc.store.persistent && report.violation.is_none() {
                // With the sweeper running a key can expire at any moment, which takes its extent
                // out of the index before the retirement has returned it to the free pool: the
                // partition is judged only when it stays the same over a settle + flush, and a
                // failure must persist over three such attempts.
                let mut last_failure = None;
                for _ in 0..3 {
                    let _ = env.settle();
                    let quiet = store.verif_shard_counts().iter().all(|c| *c == 0) && store.verif_retirements_pending() == Some(0);
                    if !(quiet && store.flush().is_ok()) {
                        last_failure = None;
                        continue;
                    }
                    match checks::check_partition(&env) {
                        Ok(_) => {
                            report.count("partition_checks", 1);
                            last_failure = None;
                            break;
                        }
                        Err(f) => last_failure = Some(f),
                    }
                    if sc.store.sweeper.is_none() {
                        break;
                    }
                }
                if let Some(f) = last_failure {
                    report.fail(f.rule, format!("at quiescence: {}", f.detail));
                }
            }
        }
        report.nontrivial = match sc.property.as_str() {
            "C08" | "C16" => stats.pin_events > 0 && overlapping_mod > 0 || disk_reads_with_overlap > 0,
            "C13" => sc.store.max_memory.is_some() && hist.len() >= 4,
            "C14" => hist.iter().any(|r| matches!(r.call, Call::Range { .. })) && overlapping_mod > 0,
            "C11" => hist.iter().any(|r| matches!(r.call, Call::Get { .. })) && sc.store.ttl,
            _ => overlapping_mod > 0,
        };
        report.extra_hash = mix(hist.len() as u64, overlapping_mod);
        if let Some(d) = &env.disk {
            report.disk = d.stats();
        }
        drop(store);
        env.cleanup();
        report
    }
}

/// JSON object of exactly `len` bytes.
fn json_exact(key: usize, counter: u32, len: usize) -> Vec<u8> {
    let base = serde_json::to_vec(&serde_json::json!({"k": key, "n": counter, "pad": ""})).unwrap();
    let pad = "x".repeat(len.saturating_sub(base.len()));
    serde_json::to_vec(&serde_json::json!({"k": key, "n": counter, "pad": pad})).unwrap()
}

fn is_mutation(c: &Call) -> bool {
    matches!(
        c,
        Call::Insert { .. } | Call::Delete { .. } | Call::Cas { .. } | Call::Incr { .. } | Call::InsertIfAbsent { .. } | Call::JsonPatch { .. } | Call::UpdateTtl { .. }
    )
}

#[allow(clippy::too_many_arguments)]
fn client_loop(
    sim: &Arc<Sim>,
    store: &Arc<FeoxStore>,
    keys: &[Vec<u8>],
    ops: &[Op],
    client: usize,
    format: u32,
    tl: &Arc<Mutex<Timeline>>,
    history: &Arc<Mutex<Vec<Rec>>>,
    values: &Arc<Mutex<BTreeMap<usize, Vec<u8>>>>,
) {
    let mut last_seen: BTreeMap<usize, Vec<u8>> = BTreeMap::new();
    let _ = format;
    let mut counter = 0u32;
    for (i, op) in ops.iter().enumerate() {
        if let Op::Advance { ns } = op {
            sim.advance(Duration::from_nanos(*ns));
            continue;
        }
        if let Op::WaitSite { site, hits, max_polls } = op {
            let mut polls = 0;
            while sim.site_hits(site) < *hits && polls < *max_polls {
                feoxdb::verif::yield_point("harness.wait_site");
                polls += 1;
            }
            continue;
        }
        counter += 1;
        let k = |i: usize| keys[i % keys.len()].clone();
        let mkval = |key: usize, val: &Val, counter: u32| -> Vec<u8> {
            let v = match val.kind {
                ValKind::Counter(c) => c.to_le_bytes().to_vec(),
                ValKind::Json => json_exact(key, counter, val.len),
                _ => harness::plain_value(key % keys.len(), client as u8, counter, val.len),
            };
            if v.len() != 8 {
                values.lock().unwrap().insert(v.len(), v.clone());
            }
            v
        };
        let explicit = |ts: &Ts| match ts {
            Ts::Abs(t) => Some(*t),
            _ => None,
        };
        let call = match op {
            Op::Insert { key, val, ts, ttl, .. } => Call::Insert {
                key: k(*key),
                value: mkval(*key, val, counter),
                ts: explicit(ts),
                ttl: *ttl,
                with_ttl_api: *ttl > 0,
            },
            Op::Get { key, .. } => Call::Get { key: k(*key) },
            Op::Delete { key, ts } => Call::Delete { key: k(*key), ts: explicit(ts) },
            Op::Cas { key, val, ts, ttl, .. } => Call::Cas {
                key: k(*key),
                expected: last_seen.get(&(*key % keys.len())).cloned().unwrap_or_else(|| b"none!".to_vec()),
                value: mkval(*key, val, counter),
                ts: explicit(ts),
                ttl: *ttl,
            },
            Op::Incr { key, delta, ts, ttl } => Call::Incr { key: k(*key), delta: *delta, ts: explicit(ts), ttl: *ttl },
            Op::InsertIfAbsent { key, val } => Call::InsertIfAbsent { key: k(*key), value: mkval(*key, val, counter) },
            Op::JsonPatch { key, patch, ts } => Call::JsonPatch { key: k(*key), patch: harness::patch_doc(patch, 1_000_000 + client as u32 * 1000 + counter), ts: explicit(ts) },
            Op::UpdateTtl { key, ttl } => Call::UpdateTtl { key: k(*key), ttl: *ttl },
            Op::Range { start, end, limit } => {
                let r = harness::Resolver { keys, writer: 0, counter: 0, format: 3 };
                Call::Range { start: r.bound(start), end: r.bound(end), limit: *limit }
            }
            Op::Flush => Call::Flush,
            _ => continue,
        };
        let bytes_api = matches!(op, Op::Insert { bytes: true, .. } | Op::Get { bytes: true, .. });
        sample_now(store, sim, tl);
        let wall0 = sim.now_wall();
        let invoke = sim.next_event();
        sim.op_begin(call.name());
        let res = harness::exec_call(store, &call, bytes_api);
        sim.op_end();
        sample_now(store, sim, tl);
        let ret = sim.next_event();
        let wall1 = sim.now_wall();
        if let (Call::Get { key }, Res::Bytes(v)) = (&call, &res) {
            let ki = keys.iter().position(|x| x == key).unwrap();
            last_seen.insert(ki, v.clone());
        }
        match (&call, &res) {
            (Call::Insert { key, value, .. }, Res::Bool(_)) | (Call::InsertIfAbsent { key, value }, Res::Bool(true)) | (Call::Cas { key, value, .. }, Res::Bool(true)) => {
                let ki = keys.iter().position(|x| x == key).unwrap();
                last_seen.insert(ki, value.clone());
            }
            _ => {}
        }
        sim.hash_u64(mix(invoke, ret));
        if std::env::var("SIMCHECK_DEBUG").is_ok() {
            eprintln!("client {client} op #{i} ev {invoke}..{ret} wall {wall0}..{wall1}: {} -> {} | mem={} len={} key={:?}", call.brief(), res.brief(), store.memory_usage(), store.len(), call.key().and_then(|k| store.verif_key(k)).map(|k| (k.timestamp, k.expiry, k.value_len)));
        }
        history.lock().unwrap().push(Rec { client, idx: i, call, invoke, ret, wall0, wall1, res });
    }
}

/// States the key had at some moment in [from, to] (the state current at `from` included).
fn states_in<'a>(samples: &'a [Sample], from: u64, to: u64) -> Vec<&'a Option<KState>> {
    static NONE: Option<KState> = None;
    let mut out: Vec<&Option<KState>> = Vec::new();
    let mut current: &Option<KState> = &NONE;
    // a call stamped invoke=I, return=R sees samples with I <= at < R; earlier samples have at < I
    for s in samples {
        if s.at < from {
            current = &s.state;
        }
    }
    out.push(current);
    for s in samples {
        if s.at >= from && s.at < to {
            out.push(&s.state);
        }
    }
    out
}

fn changed_in(samples: &[Sample], from: u64, to: u64) -> bool {
    samples.iter().any(|s| s.at >= from && s.at < to)
}

#[allow(clippy::too_many_lines)]
fn analyse_key(
    key: &[u8],
    ops: &[&Rec],
    samples: &[Sample],
    vals: &BTreeMap<usize, Vec<u8>>,
    ttl: bool,
    report: &mut BodyReport,
) -> Result<(), (String, String)> {
    let kname = show(key);
    // ---- 1. transitions and their legality
    let mut prev: Option<KState> = None;
    #[derive(Clone)]
    struct Install {
        at: u64,
        wall: u64,
        prev: Option<KState>,
        new: Option<KState>,
        owner: Option<usize>,
        value: Option<Vec<u8>>,
    }
    let mut installs: Vec<Install> = Vec::new();
    for s in samples {
        if let (Some(a), Some(b)) = (&prev, &s.state) {
            if b.ts <= a.ts {
                return Err((
                    "write-landed-on-newer-state".into(),
                    format!(
                        "key {kname}: generation (ts={}, {}B) was replaced at event {} by (ts={}, {}B), which is not newer",
                        a.ts, a.len, s.at, b.ts, b.len
                    ),
                ));
            }
        }
        installs.push(Install { at: s.at, wall: s.wall, prev: prev.clone(), new: s.state.clone(), owner: None, value: None });
        prev = s.state.clone();
    }
    // ---- 2. attribute installs to successful modifications
    let successful: Vec<usize> = ops
        .iter()
        .enumerate()
        .filter(|(_, r)| match (&r.call, &r.res) {
            (Call::Insert { .. }, Res::Bool(_)) => true,
            (Call::Delete { .. }, Res::Unit) => true,
            (Call::Cas { .. }, Res::Bool(true)) => true,
            (Call::Incr { .. }, Res::Int(_)) => true,
            (Call::InsertIfAbsent { .. }, Res::Bool(true)) => true,
            (Call::JsonPatch { .. }, Res::Unit) => true,
            (Call::UpdateTtl { .. }, Res::Unit) => true,
            _ => false,
        })
        .map(|(i, _)| i)
        .collect();
    let explicit_ts = |c: &Call| match c {
        Call::Insert { ts, .. } | Call::Delete { ts, .. } | Call::Cas { ts, .. } | Call::Incr { ts, .. } | Call::JsonPatch { ts, .. } => *ts,
        _ => None,
    };
    let candidate = |ins: &Install, r: &Rec| -> bool {
        if ins.at < r.invoke || ins.at >= r.ret {
            return false;
        }
        match (&r.call, &ins.new) {
            (Call::Delete { .. }, None) => true,
            (Call::Delete { .. }, Some(_)) => false,
            (_, None) => false,
            (c, Some(st)) => {
                if let Some(t) = explicit_ts(c) {
                    if t != st.ts {
                        return false;
                    }
                }
                match c {
                    Call::Insert { value, .. } | Call::Cas { value, .. } | Call::InsertIfAbsent { value, .. } => value.len() == st.len,
                    Call::Incr { .. } => st.len == 8,
                    Call::UpdateTtl { .. } => ins.prev.as_ref().is_some_and(|p| p.len == st.len),
                    Call::JsonPatch { .. } => true,
                    _ => false,
                }
            }
        }
    };
    // Bipartite matching by backtracking: most edges are forced by unique lengths/timestamps;
    // where they are not (8-byte counters, equal event stamps) every complete matching is
    // tried against the per-install rules and the first one that satisfies them is taken.
    let n = installs.len();
    let base: Vec<(u64, u64, Option<KState>, Option<KState>)> =
        installs.iter().map(|i| (i.at, i.wall, i.prev.clone(), i.new.clone())).collect();
    let verify = |owner: &Vec<Option<usize>>| -> Result<Vec<Option<Vec<u8>>>, (String, String)> {
        let mut values: Vec<Option<Vec<u8>>> = vec![None; n];
        // unattributed installs: only the expiry of an expired generation may remove a key
        for ii in 0..n {
            if owner[ii].is_some() {
                continue;
            }
            let (at, wall, prev, new) = &base[ii];
            let expired_removal = new.is_none() && ttl && prev.as_ref().is_some_and(|p| p.expiry != 0 && p.expiry < *wall);
            if !expired_removal {
                return Err((
                    "unattributed-state-change".into(),
                    format!(
                        "key {kname}: at event {at} the key changed from {prev:?} to {new:?} (wall {wall}) but no successful call accounts for it; sequence: {}",
                        describe(samples)
                    ),
                ));
            }
        }
        for ii in 0..n {
            let Some(op) = owner[ii] else { continue };
            let r = ops[op];
            let prev_value: Option<Vec<u8>> = if ii > 0 { values[ii - 1].clone() } else { None };
            let (_, wall, prev_state, new_state) = &base[ii];
            let prev_visible = prev_state.as_ref().is_some_and(|p| !(ttl && p.expiry != 0 && *wall > p.expiry && r.wall0 > p.expiry));
            let fail = |rule: &str, why: String| -> Result<(), (String, String)> {
                Err((rule.to_string(), format!("key {kname}: client {} {} -> {} (events {}..{}): {why}; sequence: {}", r.client, r.call.brief(), r.res.brief(), r.invoke, r.ret, describe(samples))))
            };
            match (&r.call, &r.res) {
                (Call::Insert { value, .. }, Res::Bool(created)) => {
                    if *created != prev_state.is_none() {
                        fail("insert-created-flag", format!("returned created={created} but the key was {} when the generation was installed", if prev_state.is_none() { "absent" } else { "present" }))?;
                    }
                    values[ii] = Some(value.clone());
                }
                (Call::InsertIfAbsent { value, .. }, _) => {
                    if prev_state.is_some() {
                        fail("insert-if-absent-overwrote", "inserted although the key was present".into())?;
                    }
                    values[ii] = Some(value.clone());
                }
                (Call::Cas { expected, value, .. }, _) => {
                    match prev_state {
                        None => fail("cas-swapped-absent", "swapped although the key was absent".into())?,
                        Some(p) => {
                            if p.len != expected.len() {
                                fail("cas-swapped-wrong-value", format!("swapped although the current value had {} bytes and the expected one {}", p.len, expected.len()))?;
                            }
                            if let Some(pv) = &prev_value {
                                if pv != expected {
                                    fail("cas-swapped-wrong-value", "swapped although the current value differed from the expected one".into())?;
                                }
                            }
                        }
                    }
                    values[ii] = Some(value.clone());
                }
                (Call::Incr { delta, .. }, Res::Int(result)) => {
                    let base_value: Option<i64> = match (prev_state, &prev_value) {
                        (None, _) => Some(0),
                        (Some(_), _) if !prev_visible => Some(0),
                        (Some(p), Some(v)) if p.len == 8 && v.len() == 8 => Some(i64::from_le_bytes(v[..8].try_into().unwrap())),
                        (Some(p), _) if p.len != 8 => {
                            fail("increment-on-non-counter", format!("incremented a {} byte value", p.len))?;
                            None
                        }
                        _ => None,
                    };
                    if let Some(b) = base_value {
                        if b.saturating_add(*delta) != *result {
                            fail("lost-or-wrong-increment", format!("previous counter value {b} plus {delta} is not {result}"))?;
                        }
                    }
                    values[ii] = Some(result.to_le_bytes().to_vec());
                }
                (Call::JsonPatch { patch, .. }, _) => {
                    if let Some(pv) = &prev_value {
                        match apply_patch(pv, patch) {
                            Some(nv) => {
                                if new_state.as_ref().is_some_and(|s| s.len != nv.len()) {
                                    fail("json-patch-wrong-base", format!("installed {} bytes but patching the previous value gives {}", new_state.as_ref().unwrap().len, nv.len()))?;
                                }
                                values[ii] = Some(nv);
                            }
                            None => fail("json-patch-wrong-base", "succeeded although the previous value cannot be patched".into())?,
                        }
                    }
                }
                (Call::UpdateTtl { .. }, _) => {
                    values[ii] = prev_value.clone();
                }
                (Call::Delete { .. }, _) => {
                    if prev_state.is_none() {
                        fail("delete-of-absent", "deleted a key that was absent".into())?;
                    }
                }
                _ => {}
            }
        }
        Ok(values)
    };
    type Solution = (Vec<Option<usize>>, Vec<Option<Vec<u8>>>);
    #[allow(clippy::too_many_arguments)]
    fn assign(
        si: usize,
        successful: &[usize],
        installs_len: usize,
        cand: &dyn Fn(usize, usize) -> bool,
        verify: &dyn Fn(&Vec<Option<usize>>) -> Result<Vec<Option<Vec<u8>>>, (String, String)>,
        owner: &mut Vec<Option<usize>>,
        budget: &mut u32,
        first_error: &mut Option<(String, String)>,
        solutions: &mut Vec<Solution>,
    ) {
        if si == successful.len() {
            match verify(owner) {
                Ok(values) => solutions.push((owner.clone(), values)),
                Err(e) => {
                    if first_error.is_none() {
                        *first_error = Some(e);
                    }
                }
            }
            return;
        }
        if *budget == 0 {
            return;
        }
        *budget -= 1;
        let op = successful[si];
        for ii in 0..installs_len {
            if owner[ii].is_none() && cand(ii, op) {
                owner[ii] = Some(op);
                assign(si + 1, successful, installs_len, cand, verify, owner, budget, first_error, solutions);
                owner[ii] = None;
                if *budget == 0 || solutions.len() >= 24 {
                    return;
                }
            }
        }
    }
    let cand = |ii: usize, op: usize| candidate(&installs[ii], ops[op]);
    let mut owner: Vec<Option<usize>> = vec![None; n];
    let mut budget = 20_000u32;
    let mut first_error = None;
    // Every complete matching that satisfies the per-install rules is kept: where generations
    // cannot be told apart (8-byte counters, equal event stamps) the calls are judged against
    // each of them and the history is accepted if one of them explains everything.
    let mut solutions: Vec<Solution> = Vec::new();
    assign(0, &successful, n, &cand, &verify, &mut owner, &mut budget, &mut first_error, &mut solutions);
    if solutions.is_empty() {
        if budget == 0 {
            report.count("attribution_budget_exhausted", 1);
            return Ok(());
        }
        if let Some(e) = first_error {
            return Err(e);
        }
        for &op in &successful {
            if !(0..n).any(|ii| cand(ii, op)) {
                let r = ops[op];
                return Err((
                    "accepted-modification-has-no-effect".into(),
                    format!(
                        "key {kname}: client {} {} returned {} (events {}..{}) but no generation it could have installed was ever current in that interval; installed sequence: {}",
                        r.client, r.call.brief(), r.res.brief(), r.invoke, r.ret, describe(samples)
                    ),
                ));
            }
        }
        return Err((
            "accepted-modifications-not-attributable".into(),
            format!("key {kname}: the successful modifications cannot be matched one-to-one to the installed generations {}", describe(samples)),
        ));
    }
    if solutions.len() > 1 {
        report.count("ambiguous_attributions", 1);
    }
    let mut judge = |owner: &Vec<Option<usize>>, state_values: &Vec<Option<Vec<u8>>>, report: &mut BodyReport| -> Result<(), (String, String)> {
    let mut installs = installs.clone();
    for ii in 0..n {
        installs[ii].owner = owner[ii];
        installs[ii].value = state_values[ii].clone();
        if owner[ii].is_none() {
            report.count("expiry_removals_seen", 1);
        }
    }
    // values of the states inside a call interval (None = unknown)
    let values_in = |from: u64, to: u64| -> Vec<Option<Vec<u8>>> {
        let mut out = Vec::new();
        let mut current: Option<Vec<u8>> = None;
        let mut current_known = true;
        for (i, s) in samples.iter().enumerate() {
            if s.at < from {
                current = state_values[i].clone();
                current_known = s.state.is_none() || state_values[i].is_some();
            }
        }
        out.push(if current_known { current } else { None });
        for (i, s) in samples.iter().enumerate() {
            if s.at >= from && s.at < to {
                out.push(state_values[i].clone());
            }
        }
        out
    };
    // ---- 5. everything else must be justified by a state inside its interval
    for r in ops {
        let states = states_in(samples, r.invoke, r.ret);
        let modified = changed_in(samples, r.invoke, r.ret);
        let concurrent_mod = ops.iter().any(|o| {
            (o.client, o.idx) != (r.client, r.idx) && is_mutation(&o.call) && o.invoke < r.ret && r.invoke < o.ret && !matches!(o.res, Res::Err(_))
        });
        let visible = |s: &KState| !(ttl && s.expiry != 0 && r.wall0 > s.expiry);
        let maybe_expired = |s: &KState| ttl && s.expiry != 0 && r.wall1 > s.expiry;
        let fail = |rule: &str, why: String| -> Result<(), (String, String)> {
            Err((rule.to_string(), format!("key {kname}: client {} {} -> {} (events {}..{}, wall {}..{}): {why}; sequence: {}", r.client, r.call.brief(), r.res.brief(), r.invoke, r.ret, r.wall0, r.wall1, describe(samples))))
        };
        match (&r.call, &r.res) {
            (Call::Get { .. }, Res::Bytes(v)) => {
                let ok = states.iter().any(|s| s.as_ref().is_some_and(|s| s.len == v.len()));
                if !ok {
                    fail("read-not-current", format!("returned a {} byte value but no generation of that length was current during the call", v.len()))?;
                }
                if v.len() != 8 {
                    match vals.get(&v.len()) {
                        Some(w) if w == v => {}
                        Some(_) => fail("read-not-genuine", "returned bytes that differ from the value of that length written to this key".into())?,
                        None => {
                            // a JSON-patched value: must at least parse
                            if serde_json::from_slice::<serde_json::Value>(v).is_err() {
                                fail("read-not-genuine", "returned bytes that no call ever wrote".into())?;
                            }
                        }
                    }
                }
                if states.iter().any(|s| s.as_ref().is_some_and(|s| s.expiry != 0)) {
                    report.count("reads_of_ttl_keys", 1);
                }
            }
            (Call::Get { .. }, Res::Err(ErrKind::KeyNotFound)) => {
                let ok = states.iter().any(|s| s.is_none() || s.as_ref().is_some_and(|s| maybe_expired(s)));
                if !ok {
                    fail("read-missed-present-key", "reported not-found although the key was present and unexpired during the whole call".into())?;
                }
            }
            (Call::Get { .. }, Res::Err(ErrKind::StaleExtent)) => {
                if !modified && !concurrent_mod {
                    fail("stale-extent-without-writer", "reported a stale extent although nobody modified the key during the call".into())?;
                }
                report.count("stale_extent_reads", 1);
            }
            (Call::Get { .. }, Res::Err(e)) => fail("read-error", format!("unexpected error {e:?}"))?,
            (Call::Insert { ts, .. } | Call::Delete { ts, .. } | Call::Cas { ts, .. } | Call::Incr { ts, .. } | Call::JsonPatch { ts, .. }, Res::Err(ErrKind::OlderTimestamp)) => {
                let justified = match ts {
                    Some(t) => {
                        states.iter().any(|s| s.as_ref().is_some_and(|s| s.ts >= *t))
                            || ops.iter().any(|o| {
                                // deviation (a): an accepted modification with an equal-or-newer timestamp,
                                // invoked before this rejection and genuinely concurrent with this call
                                (o.client, o.idx) != (r.client, r.idx)
                                    && !matches!(o.res, Res::Err(_))
                                    && is_mutation(&o.call)
                                    && o.invoke < r.ret
                                    && o.ret > r.invoke
                                    && explicit_ts(&o.call).is_none_or(|ot| ot >= *t)
                            })
                            || {
                                // the store retires an expired generation with the wall clock as its
                                // version (retire_expired_if_current); a write that read the expired
                                // generation and then loses the race against that retirement is refused
                                // against it - a removal of the same key, concurrent with this call,
                                // carrying an equal-or-newer version
                                let by_expiry = installs.iter().any(|i| {
                                    i.owner.is_none()
                                        && i.new.is_none()
                                        && i.at >= r.invoke
                                        && i.at < r.ret
                                        && i.prev.as_ref().is_some_and(|p| p.expiry != 0 && p.expiry < i.wall)
                                        && *t <= r.wall1
                                });
                                if by_expiry {
                                    report.count("rejections_by_concurrent_expiry_retirement", 1);
                                }
                                by_expiry
                            }
                    }
                    None => modified || concurrent_mod || states.iter().any(|s| s.as_ref().is_some_and(|s| s.ts == u64::MAX)),
                };
                if !justified {
                    fail("unjustified-older-timestamp", "rejected as older although no state or concurrent accepted modification carried an equal-or-newer timestamp".into())?;
                }
                report.count("older_timestamp_refusals", 1);
            }
            (Call::Cas { expected, .. }, Res::Bool(false)) => {
                let vals_in = values_in(r.invoke, r.ret);
                let justified = modified
                    || concurrent_mod
                    || states.iter().any(|s| match s {
                        None => true,
                        Some(s) => s.len != expected.len() || !visible(s) || maybe_expired(s),
                    })
                    // equal length (8-byte counters): compare contents where they are known
                    || vals_in.iter().any(|v| v.as_ref().is_none_or(|v| v != expected));
                if !justified {
                    fail("cas-spurious-failure", "reported no-swap although the key held the expected value during the whole call and nobody modified it".into())?;
                }
            }
            (Call::InsertIfAbsent { .. }, Res::Bool(false)) => {
                if !states.iter().any(|s| s.is_some()) {
                    fail("insert-if-absent-spurious-failure", "reported present although the key was absent during the whole call".into())?;
                }
            }
            (Call::Delete { .. } | Call::JsonPatch { .. } | Call::UpdateTtl { .. }, Res::Err(ErrKind::KeyNotFound)) => {
                let ok = states.iter().any(|s| s.is_none() || s.as_ref().is_some_and(|s| maybe_expired(s)));
                if !ok {
                    fail("not-found-on-present-key", "reported not-found although the key was present and unexpired during the whole call".into())?;
                }
            }
            (Call::Incr { .. }, Res::Err(ErrKind::InvalidOperation)) => {
                if !states.iter().any(|s| s.as_ref().is_some_and(|s| s.len != 8)) {
                    fail("increment-spurious-error", "reported a non-counter value although the key never held one during the call".into())?;
                }
            }
            (Call::JsonPatch { .. }, Res::Err(ErrKind::JsonPatch)) => {}
            (_, Res::Err(ErrKind::OutOfMemory)) => {
                report.count("refused_for_memory", 1);
            }
            (_, Res::Err(ErrKind::TtlNotEnabled | ErrKind::Unsupported | ErrKind::StaleExtent)) => {}
            (c, Res::Err(e)) if is_mutation(c) => fail("unexpected-error", format!("unexpected error {e:?}"))?,
            _ => {}
        }
        // a refused call must not have installed anything: covered by attribution (step 3)
    }
    Ok(())
    };
    let mut first_fail: Option<(String, String)> = None;
    for (owner, state_values) in &solutions {
        match judge(owner, state_values, report) {
            Ok(()) => return Ok(()),
            Err(e) => {
                if first_fail.is_none() {
                    first_fail = Some(e);
                }
            }
        }
    }
    Err(first_fail.unwrap())
}

fn describe(samples: &[Sample]) -> String {
    let mut s = String::from("[");
    for (i, x) in samples.iter().enumerate() {
        if i > 0 {
            s.push_str(", ");
        }
        match &x.state {
            None => s.push_str(&format!("@{} absent", x.at)),
            Some(k) => s.push_str(&format!("@{} (ts={}, {}B, exp={})", x.at, k.ts, k.len, k.expiry)),
        }
    }
    s.push(']');
    s
}

fn analyse_range(
    r: &Rec,
    sc: &Scenario,
    tl: &Timeline,
    hist: &[Rec],
    vals: &BTreeMap<usize, Vec<u8>>,
    report: &mut BodyReport,
) -> Result<(), (String, String)> {
    let (Call::Range { start, end, limit }, Res::Pairs(pairs)) = (&r.call, &r.res) else {
        if let Res::Err(e) = &r.res {
            if !matches!(e, ErrKind::StaleExtent) {
                return Err(("range-error".into(), format!("range query failed with {e:?}")));
            }
        }
        return Ok(());
    };
    let fail = |rule: &str, why: String| -> Result<(), (String, String)> {
        Err((rule.to_string(), format!("client {} {} (events {}..{}): {why}; returned keys {:?}", r.client, r.call.brief(), r.invoke, r.ret, pairs.iter().map(|(k, v)| (show(k), v.len())).collect::<Vec<_>>())))
    };
    if pairs.len() > *limit {
        fail("range-over-limit", format!("{} results for limit {limit}", pairs.len()))?;
    }
    for w in pairs.windows(2) {
        if w[0].0 >= w[1].0 {
            fail("range-not-ascending", "keys are not strictly ascending".into())?;
        }
    }
    for (k, v) in pairs {
        if k < start || k > end {
            fail("range-out-of-bounds", format!("key {} outside the bounds", show(k)))?;
        }
        let Some(ki) = sc.keys.iter().position(|x| x == k) else {
            fail("range-foreign-key", format!("key {} was never written", show(k)))?;
            continue;
        };
        let states = states_in(&tl.samples[ki], r.invoke, r.ret);
        if !states.iter().any(|s| s.as_ref().is_some_and(|s| s.len == v.len())) {
            fail("range-value-not-current", format!("key {} carries a {} byte value that was not current during the query", show(k), v.len()))?;
        }
        if v.len() != 8 {
            if let Some(w) = vals.get(&v.len()) {
                if w != v {
                    fail("range-value-not-genuine", format!("key {} carries bytes that differ from the value written", show(k)))?;
                }
            }
        }
    }
    // completeness: a key present, unexpired and unmodified for the whole query and inside the window
    let last_returned = pairs.last().map(|(k, _)| k.clone());
    let window_open = pairs.len() < *limit;
    let mut overlapped = false;
    for (ki, k) in sc.keys.iter().enumerate() {
        if k < start || k > end {
            continue;
        }
        let states = states_in(&tl.samples[ki], r.invoke, r.ret);
        let modified = changed_in(&tl.samples[ki], r.invoke, r.ret)
            || hist.iter().any(|o| o.call.key() == Some(k.as_slice()) && is_mutation(&o.call) && o.invoke < r.ret && r.invoke < o.ret);
        overlapped |= modified;
        let inside_window = window_open || last_returned.as_ref().is_some_and(|l| k <= l);
        let stable_present = !modified
            && states.len() == 1
            && states[0].as_ref().is_some_and(|s| !(sc.store.ttl && s.expiry != 0 && r.wall1 > s.expiry));
        let stable_absent = !modified && states.len() == 1 && states[0].is_none();
        let count = pairs.iter().filter(|(pk, _)| pk == k).count();
        if stable_present && inside_window && count != 1 {
            fail("range-missed-stable-key", format!("key {} was present and unmodified for the whole query and lies inside the returned window but appears {count} times", show(k)))?;
        }
        if stable_absent && count != 0 {
            fail("range-phantom-key", format!("key {} was absent for the whole query but appears in the result", show(k)))?;
        }
    }
    if overlapped {
        report.count("ranges_overlapping_modifications", 1);
    }
    Ok(())
}
