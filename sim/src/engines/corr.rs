//! `corr`: stored-data corruption. Valid images (v1/v2/v3; live, retired, journalled and
//! multi-block extents; clean and crashed) are damaged - bit flips, block swaps, duplication,
//! truncation, forged lengths / counts / tokens / states / generations / checksums - or
//! replaced by random bytes; opening must end in Ok or Err, never a panic, hang or abort, an
//! opened store must answer a probe workload without panicking, and a file that is not a FeOx
//! device or fails for size/metadata reasons must not be modified. Serves C17.

use std::collections::BTreeMap;
use std::sync::Arc;

use crate::codec::{self, DecodeOptions, BLOCK};
use crate::disk::FaultPlan;
use crate::engines::migr::image_from_workload;
use crate::harness::{self, Env};
use crate::runner::{BodyReport, Engine, LAST_PANIC};
use crate::scenario::*;
use crate::sched::{Sim, SimConfig, Strategy};
use crate::tape::{mix, Tape};

pub struct CorrEngine;

impl Engine for CorrEngine {
    fn name(&self) -> &'static str {
        "corr"
    }

    fn nontrivial_rule(&self, _property: &str) -> String {
        "one evaluation = one damaged image opened (and probed if it opened); non-trivial = the image differs from a valid one in >= 1 byte or is random; distinct = distinct hash of the image bytes".into()
    }

    fn generate(&self, property: &str, seed: u64, tier: &str) -> Scenario {
        let mut c = Tape::fresh(mix(seed, 0xC0F6));
        let mut w = Tape::fresh(mix(seed, 0x3017));
        let version = *c.pick(&[3u32, 3, 3, 2, 1]);
        let data_blocks = *c.pick(&[16u64, 32, 48]);
        let n_keys = 1 + c.below(6) as usize;
        let keys = gen_keys(&mut c, n_keys, 300);
        let sim = SimConfig {
            strategy: Strategy::Sticky(100),
            tick_ns: 0,
            shards: 1 + c.below(2) as usize,
            workers: 1,
            hash_seed: c.u64(),
            max_steps: 300_000,
            liveness_limit_ns: 600_000_000_000,
            ..SimConfig::default()
        };
        let store = StoreCfg {
            persistent: true,
            format: version,
            cache: c.chance(1, 2),
            ttl: version >= 2 && c.chance(1, 2),
            hash_bits: 3,
            data_blocks,
            max_memory: None,
            sweeper: None,
            create_empty_file: false,
            allow_ambiguous: c.chance(1, 4),
            ring: 0,
        };
        let mut ops = Vec::new();
        for _ in 0..3 + w.below(14) {
            let key = w.below(n_keys as u32) as usize;
            ops.push(match w.below(10) {
                0..=5 => Op::Insert { key, val: Val { len: gen_len(&mut w, 3), kind: ValKind::Plain }, ts: Ts::Auto, ttl: if store.ttl && w.chance(1, 3) { 3600 } else { 0 }, bytes: false },
                6 | 7 => Op::Delete { key, ts: Ts::Auto },
                _ => Op::Flush,
            });
        }
        let mut knobs = BTreeMap::new();
        // 0: damaged valid image, 1: random bytes, 2: invalid size
        let mut kind = *c.pick(&[0i64, 0, 0, 0, 0, 1, 2]);
        // own tape: a device larger than any window the store might look at first (1 MiB scan
        // window), empty at its start and foreign further on
        let mut zt = Tape::fresh(mix(seed, 0x2E80));
        let mut store = store;
        if zt.chance(1, 12) {
            kind = 3;
            store.data_blocks = 300 + zt.below(400) as u64;
        }
        // own tape: synthesised images of several scan windows with records, duplicates, retirement
        // chains and journal extents across the window boundaries and against the device's end
        // (migr::synth_scatter), undamaged or damaged. Profile C10 opens only undamaged ones and
        // demands that they open and read back.
        let mut sk = Tape::fresh(mix(seed, 0x5CA7));
        let mut scatter_edits = 0i64;
        if property == "C10" || sk.chance(1, 7) {
            kind = 4;
            store.data_blocks = *sk.pick(&[258u64, 270, 300, 511, 513, 530, 700, 770, 1008, 1030]) + sk.below(3) as u64;
            store.ttl = false;
            scatter_edits = if property == "C10" { 0 } else { sk.below(3) as i64 };
        }
        knobs.insert("scatter_edits".into(), scatter_edits);
        knobs.insert("kind".into(), kind);
        knobs.insert("crash_source".into(), c.chance(1, 3) as i64);
        knobs.insert("edits".into(), 1 + c.below(if tier == "thorough" { 6 } else { 3 }) as i64);
        Scenario {
            engine: "corr".into(),
            property: property.into(),
            seed,
            sim,
            store,
            keys,
            clients: vec![ops],
            faults: FaultPlan::default(),
            knobs,
        }
    }

    fn body(&self, sim: &Arc<Sim>, sc: &Scenario) -> BodyReport {
        let mut report = BodyReport::default();
        let mut t = Tape::fresh(mix(sc.seed, 0xC022));
        let kind = sc.knob("kind", 0);
        let size = (16 + sc.store.data_blocks as usize) * BLOCK;
        let (image, recipe): (Vec<u8>, Vec<String>) = match kind {
            1 => {
                let mut img = vec![0u8; size];
                let mut st = sc.seed;
                for chunk in img.chunks_mut(8) {
                    let w = crate::tape::splitmix64(&mut st).to_le_bytes();
                    chunk.copy_from_slice(&w[..chunk.len()]);
                }
                // sometimes keep a valid-looking start so that the scan is reached
                if t.chance(1, 2) {
                    let e = codec::empty_image(sc.store.format, size, 1_700_000_000);
                    img[..8 * BLOCK].copy_from_slice(&e[..8 * BLOCK]);
                }
                (img, vec!["random bytes".into()])
            }
            3 => {
                // zero head, foreign bytes somewhere behind the first MiB (sometimes also a little
                // before it): not an empty device, not a FeOx device
                let mut img = vec![0u8; size];
                let total_blocks = size / BLOCK;
                let first_foreign = if t.chance(3, 4) { 257 + t.below((total_blocks - 258) as u32) as usize } else { 17 + t.below(200) as usize };
                let mut st = sc.seed ^ 0x5EED;
                for b in [first_foreign, total_blocks - 1 - t.below(8) as usize] {
                    for chunk in img[b * BLOCK..(b + 1) * BLOCK].chunks_mut(8) {
                        let w = crate::tape::splitmix64(&mut st).to_le_bytes();
                        chunk.copy_from_slice(&w[..chunk.len()]);
                    }
                }
                (img, vec![format!("zero-head foreign block {first_foreign} of {total_blocks}")])
            }
            4 => {
                let mut img = crate::engines::migr::synth_scatter(sc, &mut t, sc.seed);
                let mut recipe = vec!["scattered multi-window image".to_string()];
                for _ in 0..sc.knob("scatter_edits", 0) {
                    recipe.push(damage(&mut img, sc.store.format, &mut t));
                }
                (img, recipe)
            }
            2 => {
                let bad = *t.pick(&[1usize, 4095, 4096, 16 * BLOCK, 16 * BLOCK + 1, 17 * BLOCK - 512, size + 100]);
                let mut img = codec::empty_image(sc.store.format, size.max(bad), 1_700_000_000);
                img.truncate(bad);
                (img, vec![format!("invalid size {bad}")])
            }
            _ => {
                let Some(base) = image_from_workload(sim, sc, sc.knob("crash_source", 0) == 1, &mut t, &mut report) else {
                    return report;
                };
                let mut img = base;
                let mut recipe = Vec::new();
                for _ in 0..sc.knob("edits", 1) {
                    recipe.push(damage(&mut img, sc.store.format, &mut t));
                }
                (img, recipe)
            }
        };
        report.count(&format!("kind_{kind}"), 1);
        for r in &recipe {
            let name: String = r.split(' ').next().unwrap_or("edit").to_string();
            report.count(&format!("edit.{name}"), 1);
        }
        // ---- open the damaged image
        let mut env = Env::new(Arc::clone(sim), sc.store.clone(), sc.keys.clone(), "corr");
        if image.is_empty() {
            return report;
        }
        env.install_image(image.clone());
        feoxdb::verif::process_restart();
        let disk = env.disk.clone().unwrap();
        let meta_ok = image.len() >= 8 * BLOCK && codec::read_meta(&image).is_some();
        let all_zero = image.iter().all(|b| *b == 0);
        let size_ok = image.len() % BLOCK == 0 && image.len() > 16 * BLOCK;
        sim.op_begin("open");
        let opened = std::panic::catch_unwind(std::panic::AssertUnwindSafe(|| env.open()));
        sim.op_end();
        let describe = || format!("image: {} bytes, edits {recipe:?}", image.len());
        match opened {
            Err(_) => {
                report.fail("panic-on-open", format!("opening the image panicked: {} ({})", LAST_PANIC.lock().unwrap(), describe()));
                env.store = None;
            }
            Ok(Err(e)) => {
                report.count("open_err", 1);
                if sc.property == "C10" && kind == 4 {
                    report.fail("valid-image-rejected", format!("an image that follows the documented layout (independent writer, nothing damaged) was refused with {e:?} ({})", describe()));
                }
                let writes = disk.stats().writes;
                let unchanged = disk.cache_image() == image;
                // "size or metadata reasons": judged from the image itself (no valid metadata copy,
                // invalid size), not from the error kind - a journal whose generation cannot be
                // advanced also surfaces as InvalidMetadata, after a legitimate journal replay.
                let must_not_modify = !size_ok || (!meta_ok && !all_zero) || matches!(e, feoxdb::FeoxError::InvalidDevice);
                if must_not_modify && (writes != 0 || !unchanged) {
                    report.fail(
                        "rejected-file-modified",
                        format!("open failed with {e:?} (size ok: {size_ok}, valid metadata: {meta_ok}) but {writes} writes were issued to the file ({})", describe()),
                    );
                }
            }
            Ok(Ok(())) => {
                report.count("open_ok", 1);
                if !size_ok {
                    report.fail("invalid-size-accepted", format!("a file of {} bytes was opened as a device", image.len()));
                }
                if !meta_ok && !all_zero {
                    report.fail("foreign-file-taken-over", format!("a non-empty file without valid FeOx metadata was opened (and will be written to) ({})", describe()));
                }
                // probe: every call must answer without panicking
                let keys: Vec<Vec<u8>> = match codec::decode_image(&image, DecodeOptions { allow_ambiguous: true, apply_journal: true }) {
                    Ok(d) => d.live.keys().cloned().collect(),
                    Err(_) => sc.keys.clone(),
                };
                if sc.property == "C10" && kind == 4 {
                    // the undamaged image must read back exactly what the independent reader finds in
                    // it, and after recovery's repairs and a clean close the file must still say so
                    match codec::decode_image(&image, DecodeOptions { allow_ambiguous: false, apply_journal: true }) {
                        Err(why) => report.fail("harness-synth-invalid", format!("independent reader rejects its own image: {why}")),
                        Ok(want) => {
                            let store = Arc::clone(env.st());
                            let got: BTreeMap<Vec<u8>, (u64, u64, usize)> = store.verif_hash_keys().into_iter().map(|k| (k.key, (k.timestamp, k.expiry, k.value_len))).collect();
                            let exp: BTreeMap<Vec<u8>, (u64, u64, usize)> = want.live.iter().map(|(k, r)| (k.clone(), (r.timestamp, r.expiry, r.value.len()))).collect();
                            if got != exp {
                                report.fail("valid-image-misread", format!("recovery exposes {} generations, the independent reader finds {} (or they differ): {:?} vs {:?} ({})", got.len(), exp.len(), got.iter().map(|(k, v)| (String::from_utf8_lossy(k).into_owned(), v.0)).collect::<Vec<_>>(), exp.iter().map(|(k, v)| (String::from_utf8_lossy(k).into_owned(), v.0)).collect::<Vec<_>>(), describe()));
                            }
                            for (k, r) in &want.live {
                                match store.get(k) {
                                    Ok(v) if v == r.value => {}
                                    other => {
                                        report.fail("valid-image-misread", format!("get({}) on the opened image returned {:?}, the image holds a {} byte value at block {} ({})", String::from_utf8_lossy(k), other.map(|v| v.len()), r.value.len(), r.sector, describe()));
                                        break;
                                    }
                                }
                            }
                            drop(store);
                            report.count("valid_scattered_images_read_back", 1);
                            let closed = std::panic::catch_unwind(std::panic::AssertUnwindSafe(|| env.close()));
                            if closed.is_err() {
                                report.fail("panic-on-close", format!("dropping the store panicked: {} ({})", LAST_PANIC.lock().unwrap(), describe()));
                                env.store = None;
                            } else if report.violation.is_none() {
                                let after = disk.cache_image();
                                match codec::decode_image(&after, DecodeOptions::default()) {
                                    Err(why) => report.fail("image-rejected", format!("after recovery and a clean close the file no longer follows the documented layout: {why} ({})", describe())),
                                    Ok(d) => {
                                        if d.journal.as_ref().is_some_and(|j| j.active) {
                                            report.fail("journal-active-after-close", format!("allocation journal still active after recovery and a clean close ({})", describe()));
                                        }
                                        let same = d.live.len() == want.live.len() && want.live.iter().all(|(k, r)| d.live.get(k).is_some_and(|m| m.value == r.value && m.timestamp == r.timestamp && m.expiry == r.expiry && m.sector == r.sector));
                                        if !same {
                                            report.fail("image-generation-mismatch", format!("after recovery and a clean close the file holds {} records, before {} (or a generation moved or changed) ({})", d.live.len(), want.live.len(), describe()));
                                        }
                                        if !d.stale.is_empty() {
                                            report.fail("stale-duplicate-left", format!("after recovery and a clean close {} superseded generations are still on the device ({})", d.stale.len(), describe()));
                                        }
                                        if d.retired_extents.iter().any(|e| !e.2) {
                                            report.fail("pending-retirement-left", format!("after recovery and a clean close a retirement chain is still pending ({})", describe()));
                                        }
                                        if let Err(why) = codec::verify_marker_chains(&after, &d) {
                                            report.fail("retirement-marker-chain", format!("{why} ({})", describe()));
                                        }
                                    }
                                }
                            }
                        }
                    }
                }
                if env.store.is_some() {
                    let store = Arc::clone(env.st());
                    sim.op_begin("probe");
                    let probed = std::panic::catch_unwind(std::panic::AssertUnwindSafe(|| {
                        for k in keys.iter().chain(sc.keys.iter()) {
                            let _ = store.get(k);
                            let _ = store.get_size(k);
                            let _ = store.contains_key(k);
                        }
                        for k in store.verif_hash_keys() {
                            let _ = store.get_bytes(&k.key);
                        }
                        let _ = store.range_query(&[], &[0xff; 16], 1000);
                        let _ = store.len();
                        let _ = store.insert(b"probe:corr", &vec![7u8; 5000]);
                        let _ = store.flush();
                        let _ = store.get(b"probe:corr");
                        if let Some(k) = keys.first() {
                            let _ = store.insert(k, b"overwrite");
                            let _ = store.delete(k);
                        }
                        let _ = store.delete(b"probe:corr");
                        let _ = store.flush();
                    }));
                    sim.op_end();
                    drop(store);
                    if probed.is_err() {
                        report.fail("panic-on-probe", format!("a store opened from the image panicked during the probe workload: {} ({})", LAST_PANIC.lock().unwrap(), describe()));
                    }
                    let closed = std::panic::catch_unwind(std::panic::AssertUnwindSafe(|| env.close()));
                    if closed.is_err() {
                        report.fail("panic-on-close", format!("dropping the store panicked: {} ({})", LAST_PANIC.lock().unwrap(), describe()));
                        env.store = None;
                    }
                }
            }
        }
        let mut h = image.len() as u64;
        for chunk in image.chunks(4096) {
            h = mix(h, codec::crc32c_fast(0, chunk) as u64);
        }
        report.extra_hash = h;
        report.nontrivial = true;
        report.ops = 1;
        report.disk = disk.stats();
        let _ = harness::scratch_dir();
        let cleaned = std::panic::catch_unwind(std::panic::AssertUnwindSafe(|| env.cleanup()));
        if cleaned.is_err() {
            report.fail("panic-on-close", format!("dropping the store panicked: {}", LAST_PANIC.lock().unwrap()));
        }
        report
    }
}

fn put16(img: &mut [u8], at: usize, v: u16) {
    img[at..at + 2].copy_from_slice(&v.to_le_bytes());
}
fn put32(img: &mut [u8], at: usize, v: u32) {
    img[at..at + 4].copy_from_slice(&v.to_le_bytes());
}
fn put64(img: &mut [u8], at: usize, v: u64) {
    img[at..at + 8].copy_from_slice(&v.to_le_bytes());
}

fn interesting64(t: &mut Tape, device_blocks: u64) -> u64 {
    match t.below(12) {
        0 => 0,
        1 => 1,
        2 => u64::MAX,
        3 => u64::MAX - 1,
        4 => 1 << 63,
        5 => device_blocks,
        6 => device_blocks + 1,
        7 => device_blocks * BLOCK as u64,
        8 => 4 * 1024 * 1024,
        9 => 4 * 1024 * 1024 + 1,
        10 => (1u64 << 32) + t.below(100) as u64,
        _ => t.u64(),
    }
}

/// Apply one corruption to the image and describe it.
fn damage(img: &mut Vec<u8>, version: u32, t: &mut Tape) -> String {
    let blocks = img.len() / BLOCK;
    if blocks < 17 {
        return "noop".into();
    }
    let heads: Vec<usize> = (16..blocks).filter(|b| u16::from_le_bytes([img[b * BLOCK], img[b * BLOCK + 1]]) == codec::RECORD_MARKER).collect();
    let markers: Vec<usize> = (16..blocks).filter(|b| &img[b * BLOCK..b * BLOCK + 8] == codec::DELETED_TAG).collect();
    let restamp_record = |img: &mut Vec<u8>, b: usize| {
        // recompute the token over whatever extent the (forged) header now claims, if it fits
        let d = &img[b * BLOCK..];
        let key_len = u16::from_le_bytes([d[4], d[5]]) as usize;
        let hlen = codec::header_len(version, key_len);
        if hlen + 8 > BLOCK {
            return;
        }
        let value_len = u64::from_le_bytes(d[6 + key_len..6 + key_len + 8].try_into().unwrap());
        let total = (hlen as u64).saturating_add(value_len).div_ceil(BLOCK as u64);
        if total == 0 || b as u64 + total > blocks as u64 {
            return;
        }
        let extent = &img[b * BLOCK..(b + total as usize) * BLOCK];
        let tok = codec::record_token(b as u64, extent);
        put16(img, b * BLOCK + 2, tok);
    };
    match t.below(16) {
        0 => {
            let n = 1 + t.below(8);
            for _ in 0..n {
                let at = t.below(img.len() as u32) as usize;
                img[at] ^= 1 << t.below(8);
            }
            format!("bitflip x{n} anywhere")
        }
        1 => {
            // bit flips in the reserved area (metadata + journal)
            let at = t.below((16 * BLOCK) as u32) as usize;
            let at = if t.chance(1, 2) { (at / BLOCK) * BLOCK + t.below(160) as usize } else { at };
            img[at] ^= 1 << t.below(8);
            format!("bitflip reserved @{at}")
        }
        2 if !heads.is_empty() => {
            let b = *t.pick(&heads);
            let at = b * BLOCK + t.below(64) as usize;
            img[at] ^= 1 << t.below(8);
            format!("bitflip head of block {b}")
        }
        3 => {
            let a = 16 + t.below((blocks - 16) as u32) as usize;
            let b = 16 + t.below((blocks - 16) as u32) as usize;
            for i in 0..BLOCK {
                img.swap(a * BLOCK + i, b * BLOCK + i);
            }
            format!("swap blocks {a} {b}")
        }
        4 => {
            let a = t.below(blocks as u32) as usize;
            let b = t.below(blocks as u32) as usize;
            let src = img[a * BLOCK..(a + 1) * BLOCK].to_vec();
            img[b * BLOCK..(b + 1) * BLOCK].copy_from_slice(&src);
            format!("duplicate block {a} over {b}")
        }
        5 => {
            let b = t.below(blocks as u32) as usize;
            img[b * BLOCK..(b + 1) * BLOCK].fill(0);
            format!("zero block {b}")
        }
        6 => {
            let cut = 1 + t.below(8) as usize;
            if blocks > 17 + cut {
                img.truncate((blocks - cut) * BLOCK);
            }
            format!("truncate by {cut} blocks")
        }
        7 if !heads.is_empty() => {
            let b = *t.pick(&heads);
            let v = *t.pick(&[0u16, 1, 4066, 4067, 4090, 0xFFFF, 300]);
            put16(img, b * BLOCK + 4, v);
            let fix = t.chance(1, 2);
            if fix {
                restamp_record(img, b);
            }
            format!("forge key_len={v} at block {b} restamp={fix}")
        }
        8 if !heads.is_empty() => {
            let b = *t.pick(&heads);
            let key_len = u16::from_le_bytes([img[b * BLOCK + 4], img[b * BLOCK + 5]]) as usize;
            if 6 + key_len + 24 <= BLOCK {
                let v = interesting64(t, blocks as u64);
                put64(img, b * BLOCK + 6 + key_len, v);
                let fix = t.chance(1, 2);
                if fix {
                    restamp_record(img, b);
                }
                format!("forge value_len={v} at block {b} restamp={fix}")
            } else {
                "noop".into()
            }
        }
        9 if !heads.is_empty() => {
            let b = *t.pick(&heads);
            let key_len = u16::from_le_bytes([img[b * BLOCK + 4], img[b * BLOCK + 5]]) as usize;
            if 6 + key_len + 24 <= BLOCK {
                let which = t.below(2) as usize;
                let v = interesting64(t, blocks as u64);
                put64(img, b * BLOCK + 6 + key_len + 8 + 8 * which, v);
                restamp_record(img, b);
                format!("forge {}={v} at block {b}", if which == 0 { "timestamp" } else { "expiry" })
            } else {
                "noop".into()
            }
        }
        10 if !heads.is_empty() => {
            let b = *t.pick(&heads);
            let v = *t.pick(&[0u16, 1, 0xFFFF, 0x1234]);
            put16(img, b * BLOCK + 2, v);
            format!("forge token={v:#x} at block {b}")
        }
        11 if !markers.is_empty() => {
            let b = *t.pick(&markers);
            let v = interesting64(t, blocks as u64);
            put64(img, b * BLOCK + 8, v);
            let state = *t.pick(&[0u8, 1, 2, 255]);
            img[b * BLOCK + 18] = state;
            let fix = t.chance(2, 3);
            if fix {
                let tok = codec::marker_token(b as u64, &img[b * BLOCK..b * BLOCK + 19]);
                put16(img, b * BLOCK + 16, tok);
            }
            format!("forge marker remaining={v} state={state} at block {b} restamp={fix}")
        }
        12 => {
            // forge a journal slot (optionally with a correct checksum)
            let slot = t.below(2) as usize;
            let at = (1 + 3 * slot) * BLOCK;
            let gen = interesting64(t, blocks as u64).max(1);
            let n = *t.pick(&[1usize, 2, 1024, 1025, 600]);
            let mut extents: Vec<(u64, u64)> = Vec::new();
            for i in 0..n.min(1024) {
                extents.push(match t.below(5) {
                    0 => (16 + (i as u64 % (blocks as u64 - 16)), 1),
                    1 => (blocks as u64 - 1, 5),
                    2 => (3, 2),
                    3 => (16, interesting64(t, blocks as u64) & 0xFFFF_FFFF),
                    _ => (16 + t.below(blocks as u32 - 16) as u64, 1 + t.below(3) as u64),
                });
            }
            let mut j = codec::encode_journal(gen, &extents);
            j.resize(3 * BLOCK, 0);
            if n > 1024 {
                put32(&mut j, 28, n as u32);
            }
            if t.chance(1, 3) {
                put32(&mut j, 24, *t.pick(&[2u32, 7, u32::MAX]));
            }
            if t.chance(1, 3) {
                j[12] ^= 0xFF; // break the checksum
            }
            img[at..at + 3 * BLOCK].copy_from_slice(&j[..3 * BLOCK]);
            format!("forge journal slot {slot} gen={gen} entries={n}")
        }
        13 => {
            // forge metadata fields, usually with a correct checksum
            let copy = *t.pick(&[0usize, 7]);
            let at = copy * BLOCK;
            if let Some(mut m) = codec::decode_meta(&img[at..at + BLOCK]).or_else(|| codec::decode_meta(&img[..BLOCK])) {
                match t.below(7) {
                    0 => m.version = *t.pick(&[0u32, 4, 99, 1, 2, 3]),
                    1 => m.device_size = interesting64(t, blocks as u64),
                    2 => m.block_size = *t.pick(&[0u32, 512, 8192]),
                    3 => m.generation = *t.pick(&[0u64, u64::MAX, u64::MAX - 1]),
                    4 => m.total_records = interesting64(t, blocks as u64),
                    5 => m.total_size = interesting64(t, blocks as u64),
                    _ => m.has_checksum = !m.has_checksum,
                }
                let b = codec::encode_meta(&m);
                img[at..at + BLOCK].copy_from_slice(&b);
                if t.chance(1, 4) {
                    img[at + 68] ^= 1;
                }
                format!("forge metadata copy {copy}: {m:?}")
            } else {
                "noop".into()
            }
        }
        14 => {
            img[..8].copy_from_slice(b"NOTFEOX!");
            if t.chance(1, 2) {
                img[7 * BLOCK..7 * BLOCK + 8].copy_from_slice(b"NOTFEOX!");
            }
            "break signature".into()
        }
        _ => {
            // a legacy (tag only) marker, ambiguous on v1/v2
            let b = 16 + t.below((blocks - 16) as u32) as usize;
            img[b * BLOCK..(b + 1) * BLOCK].copy_from_slice(&codec::encode_legacy_marker());
            format!("legacy marker at block {b}")
        }
    }
}
