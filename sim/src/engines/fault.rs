//! `fault`: workloads on a device that fails: every single write/fsync call failing before or
//! after the bytes reached the device (enumerated against the fault-free trace), pairs,
//! persistent failure, random faults incl. short writes, ENOSPC and read errors; then healing.
//! Serves C09 (and C18/C20 stages).

use std::collections::BTreeMap;
use std::sync::Arc;
use std::time::Duration;

use crate::checks;
use crate::disk::{DevOp, FaultKind, FaultPlan, ALL_ENTER_FAULTS, ALL_FSYNC_FAULTS, ALL_WRITE_FAULTS};
use crate::engines::crash::{check_recovered, contents, Contents, Trans, WorkloadRun};
use crate::harness::{self, Env, Resolver};
use crate::model::{Call, ErrKind, Gen, Model, Res};
use crate::runner::{BodyReport, Engine};
use crate::scenario::*;
use crate::sched::{Sim, SimConfig, Strategy};
use crate::tape::{mix, Tape};

pub struct FaultEngine;

fn show(k: &[u8]) -> String {
    String::from_utf8_lossy(&k[..k.len().min(24)]).into_owned()
}

impl Engine for FaultEngine {
    fn name(&self) -> &'static str {
        "fault"
    }

    fn nontrivial_rule(&self, _property: &str) -> String {
        "run had >= 1 injected write/fsync/read fault fire inside the workload (counted by the simulated device) and reached the healing phase; distinct = distinct hash of (workload, schedule, fault plan, results)".into()
    }

    fn generate(&self, property: &str, seed: u64, tier: &str) -> Scenario {
        let mut c = Tape::fresh(mix(seed, 0xC0F6));
        let mut w = Tape::fresh(mix(seed, 0x3017));
        let format = *c.pick(&[3u32, 3, 3, 2, 1]);
        let data_blocks = *c.pick(&[24u64, 48, 96]);
        let n_keys = 1 + c.below(6) as usize;
        let keys = gen_keys(&mut c, n_keys, 300);
        let blocks_cap = ((data_blocks / 6) as usize).clamp(1, 5);
        let shards = 1 + c.below(3) as usize;
        let sim = SimConfig {
            strategy: match c.below(3) {
                0 => Strategy::Random,
                1 => Strategy::Sticky(*c.pick(&[100u32, 300])),
                _ => Strategy::Pct(1 + c.below(3)),
            },
            tick_ns: *c.pick(&[0u64, 1_000, 50_000]),
            shards,
            workers: 1 + c.below(shards as u32) as usize,
            hash_seed: c.u64(),
            ..SimConfig::default()
        };
        let store = StoreCfg {
            persistent: true,
            format,
            cache: c.chance(1, 2),
            ttl: false,
            hash_bits: 2 + c.below(5),
            data_blocks,
            max_memory: None,
            sweeper: None,
            create_empty_file: false,
            allow_ambiguous: false,
            ring: gen_ring(seed),
        };
        let n_ops = 6 + w.below(if tier == "thorough" { 40 } else { 24 }) as usize;
        let mut ops = Vec::new();
        for _ in 0..n_ops {
            let key = w.below(n_keys as u32) as usize;
            let val = |w: &mut Tape| {
                if w.chance(1, 8) {
                    Val { len: 8, kind: ValKind::Counter(w.below(100) as i64) }
                } else {
                    Val { len: gen_len(w, blocks_cap), kind: ValKind::Plain }
                }
            };
            let roll = w.below(100);
            ops.push(if roll < 18 {
                Op::Flush
            } else if roll < 22 {
                Op::Settle
            } else if roll < 26 {
                Op::Advance { ns: *w.pick(&[120_000_000u64, 600_000_000]) }
            } else {
                match w.below(14) {
                    0..=6 => Op::Insert { key, val: val(&mut w), ts: Ts::Auto, ttl: 0, bytes: w.chance(1, 2) },
                    7 | 8 => Op::Delete { key, ts: Ts::Auto },
                    9 => Op::Cas { key, expect: Expect::Current, val: val(&mut w), ts: Ts::Auto, ttl: 0 },
                    10 => Op::Incr { key, delta: 1, ts: Ts::Auto, ttl: 0 },
                    _ => Op::Get { key, bytes: w.chance(1, 2) },
                }
            });
        }
        let mut knobs = BTreeMap::new();
        let thorough = tier == "thorough";
        // 0 random, 1 single enumerated, 2 pairs, 3 persistent failure from a call on
        // 4: the next two or three writes of a metadata copy are cut short at an arbitrary byte
        knobs.insert("mode".into(), if c.chance(1, 9) { 4 } else { c.below(4) as i64 });
        knobs.insert("points".into(), if thorough { if c.chance(1, 3) { -1 } else { 10 } } else { 3 });
        knobs.insert("rate".into(), *c.pick(&[10i64, 40, 120]));
        knobs.insert("read_faults".into(), c.chance(1, 3) as i64);
        let _ = property;
        // "second flusher" family (own tape): another application thread calls flush() back to back
        // while the workload runs, so that two flush requests can be queued at one worker when the
        // device fails; every one of its calls has to return, and its Ok answers are acknowledgements too
        let mut f2 = Tape::fresh(mix(seed, 0xF2F2));
        if f2.chance(1, 4) {
            knobs.insert("flusher2".into(), 3 + f2.below(8) as i64);
        }
        // "burst" family (own tape): one shard receives more entries than fit into one journal
        // transaction (1024), so a drain is written in several batches; the fault lands in one of
        // them, the untouched rest of the drain must still reach the device once it works again
        let mut b = Tape::fresh(mix(seed, 0xB025));
        let (sim, store, keys, ops) = if b.chance(1, 50) {
            let n = 1040 + b.below(if thorough { 1300 } else { 200 }) as usize;
            let keys: Vec<Vec<u8>> = (0..n).map(|i| format!("bk{i:05}").into_bytes()).collect();
            let mut ops: Vec<Op> = (0..n)
                .map(|key| Op::Insert { key, val: Val { len: 12 + b.below(30) as usize, kind: ValKind::Plain }, ts: Ts::Auto, ttl: 0, bytes: false })
                .collect();
            ops.push(Op::Flush);
            ops.push(Op::Get { key: b.below(n as u32) as usize, bytes: false });
            ops.push(Op::Flush);
            for _ in 0..6 {
                ops.push(Op::Delete { key: b.below(n as u32) as usize, ts: Ts::Auto });
            }
            ops.push(Op::Flush);
            knobs.insert("mode".into(), *b.pick(&[1i64, 1, 2, 3]));
            knobs.insert("points".into(), if thorough { 16 } else { 4 });
            knobs.insert("burst".into(), 1);
            let sim = SimConfig { shards: 1, workers: 1, max_steps: 3_000_000, ..sim };
            let store = StoreCfg { data_blocks: 2700, hash_bits: 8, ..store };
            (sim, store, keys, ops)
        } else {
            (sim, store, keys, ops)
        };
        // "chunked batch" family (own tape): one drain of 130-380 small records on a device with the
        // simulated ring, i.e. one batch that the submission code cuts into several chunks of 128
        // entries; the sampled fault lands in one of the chunks (a failed, short or lost completion
        // in a chunk that is not the last one must still fail the batch)
        let mut cb = Tape::fresh(mix(seed, 0xC4B7));
        let (sim, store, keys, ops) = if knobs.get("burst").is_none() && cb.chance(1, 14) {
            let n = 130 + cb.below(250) as usize;
            let keys: Vec<Vec<u8>> = (0..n).map(|i| format!("cb{i:04}").into_bytes()).collect();
            let mut ops: Vec<Op> = (0..n)
                .map(|key| Op::Insert { key, val: Val { len: 12 + cb.below(40) as usize, kind: ValKind::Plain }, ts: Ts::Auto, ttl: 0, bytes: false })
                .collect();
            ops.push(Op::Flush);
            ops.push(Op::Get { key: cb.below(n as u32) as usize, bytes: false });
            for _ in 0..4 {
                ops.push(Op::Delete { key: cb.below(n as u32) as usize, ts: Ts::Auto });
            }
            ops.push(Op::Flush);
            knobs.insert("mode".into(), *cb.pick(&[1i64, 1, 1, 2, 0]));
            knobs.insert("points".into(), if thorough { 12 } else { 5 });
            knobs.insert("chunked".into(), 1);
            knobs.remove("flusher2");
            let sim = SimConfig { shards: 1, workers: 1, max_steps: 1_500_000, ..sim };
            let store = StoreCfg { data_blocks: n as u64 + 60, hash_bits: 8, ring: 1 + cb.below(2) as u8, ..store };
            (sim, store, keys, ops)
        } else {
            (sim, store, keys, ops)
        };
        // "stuck close" family (own tape): from some operation on every record write fails (the
        // record-write fail point: a retryable I/O error, the scrub of the failed batch works) and
        // the device never heals; the store is then closed as it is. flush() must say so, reads
        // stay right, the close has to come back (it gives up after its retry budget) and the file
        // reopens to something no older than the last acknowledgement
        let mut sk = Tape::fresh(mix(seed, 0x57CC));
        if knobs.get("burst").is_none() && knobs.get("chunked").is_none() && sk.chance(1, 12) {
            knobs.insert("stuck_close".into(), 1);
            knobs.insert("stuck_from".into(), sk.below(ops.len() as u32 + 1) as i64);
        }
        // the close of such a run takes 3.5-8 virtual seconds (1024 attempts with their back-off);
        // five times that without an end is a close that does not terminate
        let sim = if knobs.contains_key("stuck_close") { SimConfig { liveness_limit_ns: 40_000_000_000, max_steps: 1_000_000, ..sim } } else { sim };
        Scenario {
            engine: "fault".into(),
            property: property.into(),
            seed,
            sim,
            store,
            keys,
            clients: vec![ops],
            faults: FaultPlan::default(),
            knobs,
        }
    }

    fn body(&self, sim: &Arc<Sim>, sc: &Scenario) -> BodyReport {
        let mut report = BodyReport::default();
        let mut pick = Tape::fresh(mix(sc.seed, 0xFA17));
        // explicit plan in the scenario (a minimised replay): just run it
        if !sc.faults.at_call.is_empty() || sc.faults.dead_from_call.is_some() || sc.faults.random_per_mille > 0 || sc.faults.short_metadata_writes.is_some() {
            run_once(sim, sc, Some(sc.faults.clone()), &mut report, &mut pick);
            return report;
        }
        let dry = run_once(sim, sc, None, &mut report, &mut pick);
        let Some(dry) = dry else { return report };
        if report.violation.is_some() {
            return report;
        }
        let candidates: Vec<(u64, DevOp)> = dry
            .trace
            .iter()
            .filter(|(c, op)| *c >= dry.calls_after_open && *op != DevOp::Read)
            .cloned()
            .collect();
        if candidates.is_empty() {
            report.count("no_device_calls", 1);
            return report;
        }
        if sc.knob("stuck_close", 0) == 1 {
            run_once(sim, sc, Some(FaultPlan::default()), &mut report, &mut pick);
            return report;
        }
        let mode = sc.knob("mode", 1);
        let want = sc.knob("points", 3);
        let kinds_for = |op: DevOp| -> &'static [FaultKind] {
            match op {
                DevOp::Write => &ALL_WRITE_FAULTS,
                DevOp::Fsync => &ALL_FSYNC_FAULTS,
                DevOp::Read => &[FaultKind::ReadFail],
                DevOp::Enter => &ALL_ENTER_FAULTS,
            }
        };
        let mut plans: Vec<FaultPlan> = Vec::new();
        match mode {
            0 => {
                for _ in 0..want.clamp(1, 6) {
                    let mut kinds = vec![
                        FaultKind::WriteFailBefore,
                        FaultKind::WriteFailAfter,
                        FaultKind::WriteShort,
                        FaultKind::WriteNoSpace,
                        FaultKind::FsyncFail,
                        FaultKind::FsyncFailAfter,
                    ];
                    if sc.knob("read_faults", 0) == 1 {
                        kinds.push(FaultKind::ReadFail);
                    }
                    if sc.store.ring != 0 {
                        kinds.extend([FaultKind::RingEnterFail, FaultKind::RingEintr, FaultKind::RingSqFull]);
                    }
                    // swarm: a random subset of kinds
                    kinds.retain(|_| pick.chance(2, 3));
                    if kinds.is_empty() {
                        kinds.push(FaultKind::WriteFailBefore);
                    }
                    plans.push(FaultPlan {
                        random_per_mille: sc.knob("rate", 40) as u32,
                        random_kinds: kinds,
                        random_until_call: dry.calls_after_open + pick.range(1, (dry.calls - dry.calls_after_open).max(1)),
                        ..FaultPlan::default()
                    });
                }
            }
            1 | 2 => {
                let all = want < 0;
                let n = if all { candidates.len() } else { (want as usize).min(candidates.len()) };
                // with the simulated ring, half of the sampled points are its enter calls (few per run,
                // and the only place where an indeterminate outcome arises)
                let enters: Vec<(u64, DevOp)> = candidates.iter().filter(|(_, op)| *op == DevOp::Enter).cloned().collect();
                for i in 0..n {
                    let (call, op) = if all {
                        candidates[i]
                    } else if !enters.is_empty() && pick.chance(1, 2) {
                        enters[pick.below(enters.len() as u32) as usize]
                    } else {
                        candidates[pick.below(candidates.len() as u32) as usize]
                    };
                    let kinds = kinds_for(op);
                    let chosen: Vec<FaultKind> = if all {
                        kinds.iter().copied().filter(|k| matches!(k, FaultKind::WriteFailBefore | FaultKind::WriteFailAfter | FaultKind::FsyncFail | FaultKind::FsyncFailAfter)).collect()
                    } else {
                        vec![*pick.pick(kinds)]
                    };
                    for kind in chosen {
                        let mut at_call = vec![(call, kind)];
                        if mode == 2 {
                            let (c2, op2) = candidates[pick.below(candidates.len() as u32) as usize];
                            at_call.push((c2.max(call + 1), *pick.pick(kinds_for(op2))));
                            // the second fault must match the kind of call it lands on; the device ignores mismatches
                        }
                        plans.push(FaultPlan { at_call, ..FaultPlan::default() });
                    }
                }
            }
            4 => {
                for _ in 0..want.clamp(1, 4) {
                    let (call, _) = candidates[pick.below(candidates.len() as u32) as usize];
                    let from = if pick.chance(1, 2) { dry.calls_after_open } else { call };
                    plans.push(FaultPlan { short_metadata_writes: Some((from, 2 + pick.below(2))), ..FaultPlan::default() });
                }
            }
            _ => {
                for _ in 0..want.clamp(1, 6) {
                    let (call, _) = candidates[pick.below(candidates.len() as u32) as usize];
                    plans.push(FaultPlan { dead_from_call: Some(call), ..FaultPlan::default() });
                }
            }
        }
        for plan in plans {
            run_once(sim, sc, Some(plan), &mut report, &mut pick);
            if report.violation.is_some() {
                break;
            }
        }
        report
    }
}

struct DryInfo {
    calls: u64,
    calls_after_open: u64,
    trace: Vec<(u64, DevOp)>,
}

fn faults_fired(disk: &crate::disk::SimDisk) -> u64 {
    disk.stats().faults_fired.values().sum()
}

fn read_faults_fired(disk: &crate::disk::SimDisk) -> u64 {
    disk.stats().faults_fired.get("ReadFail").copied().unwrap_or(0)
}

/// Recover copies of the device as it stands (process crash) and of what a power loss would
/// leave, in a second handle, and apply the durability oracle.
fn check_images(
    sim: &Arc<Sim>,
    sc: &Scenario,
    disk: &Arc<crate::disk::SimDisk>,
    hist: &BTreeMap<Vec<u8>, Vec<Trans>>,
    acks: &[(u64, u64)],
    report: &mut BodyReport,
    pick: &mut Tape,
    label: &str,
) -> Result<(), (String, String)> {
    let capture = disk.capture_now();
    let run = WorkloadRun {
        capture: capture.clone(),
        hist: hist.clone(),
        acks: acks.to_vec(),
        calls: 0,
        first_ack_call: None,
        ack_calls: Vec::new(),
        site_calls: Vec::new(),
        crashed_inside: false,
        focus_calls: Vec::new(),
    };
    let mut images: Vec<(String, Vec<u8>)> = vec![("as-it-stands".into(), disk.cache_image())];
    let family = capture.family(512, 3, false, 2, pick);
    for v in family.iter().take(5) {
        images.push((format!("power-loss {}", v.label), capture.build(v)));
    }
    let mut env2 = Env::new(Arc::clone(sim), sc.store.clone(), sc.keys.clone(), "img");
    for (name, image) in images {
        env2.close();
        env2.install_image(image);
        // a process restart for the copy only: the original handle keeps its own poisoned flag
        feoxdb::verif::process_restart();
        if let Err(e) = env2.open() {
            env2.cleanup();
            return Err((
                "reopen-failed-after-fault".into(),
                format!("[{label} / {name}] the device cannot be opened: {e:?}"),
            ));
        }
        let got = match contents(&env2) {
            Ok(c) => c,
            Err(e) => {
                env2.cleanup();
                return Err(e);
            }
        };
        let len = env2.st().len();
        let idx = env2.st().verif_hash_keys().len();
        if let Err((rule, detail)) = check_recovered(&run, &got, len, idx, false, sim.now_wall(), &format!("{label} / {name}")) {
            env2.cleanup();
            return Err((rule, detail));
        }
        report.count("images_recovered", 1);
    }
    env2.cleanup();
    Ok(())
}

fn run_once(sim: &Arc<Sim>, sc: &Scenario, plan: Option<FaultPlan>, report: &mut BodyReport, pick: &mut Tape) -> Option<DryInfo> {
    let mut env = Env::new(Arc::clone(sim), sc.store.clone(), sc.keys.clone(), "fault");
    env.create_device();
    let disk = env.disk.clone().unwrap();
    if let Err(e) = env.open() {
        report.fail("open-failed", format!("{e:?}"));
        env.cleanup();
        return None;
    }
    let calls_after_open = disk.calls();
    let plan_label = plan.as_ref().map(|p| format!("{:?}/dead{:?}/rnd{}/shortmeta{:?}", p.at_call, p.dead_from_call, p.random_per_mille, p.short_metadata_writes)).unwrap_or_else(|| "fault-free".into());
    let faulty = plan.is_some();
    if let Some(p) = plan {
        disk.set_plan(p);
    }
    let mut model: Model = harness::new_model(&sc.store);
    let mut resolver = Resolver { keys: &sc.keys, writer: 0, counter: 0, format: sc.store.format };
    let mut hist: BTreeMap<Vec<u8>, Vec<Trans>> = BTreeMap::new();
    let mut acks: Vec<(u64, u64)> = Vec::new();
    // second flusher (see generate): flush() calls from another application thread
    let acks2: Arc<std::sync::Mutex<Vec<(u64, u64)>>> = Arc::new(std::sync::Mutex::new(Vec::new()));
    let mut flusher2 = None;
    let rounds2 = sc.knob("flusher2", 0);
    if rounds2 > 0 && sc.knob("burst", 0) == 0 {
        let (sim2, store2, acks2b) = (Arc::clone(sim), Arc::clone(env.st()), Arc::clone(&acks2));
        let seed2 = mix(sc.seed, 0x2F2F);
        feoxdb::verif::thread::name_next_spawn("client");
        flusher2 = Some(feoxdb::verif::thread::spawn(move || {
            let mut t = Tape::fresh(seed2);
            for _ in 0..rounds2 {
                sim2.sleep(Duration::from_micros(*t.pick(&[0u64, 50, 400, 3_000, 40_000])));
                let invoke = sim2.next_event();
                sim2.op_begin("flush");
                let r = store2.flush();
                sim2.op_end();
                if r.is_ok() {
                    acks2b.lock().unwrap().push((invoke, sim2.next_event()));
                }
            }
        }));
    }
    let mut poisoned = false;
    let mut image_checks = 0;

    macro_rules! bail {
        ($rule:expr, $detail:expr) => {{
            report.fail($rule, format!("[{plan_label}] {}", $detail));
            if let Some(h) = flusher2.take() {
                let _ = h.join();
            }
            drop(resolver);
            report.disk = disk.stats();
            env.cleanup();
            return None;
        }};
    }

    let stuck = faulty && sc.knob("stuck_close", 0) == 1;
    let stuck_from = sc.knob("stuck_from", 0) as usize;
    let record_write_failures = |sim: &Arc<Sim>| sim.stats().fail_hits.get("record_write").copied().unwrap_or(0);
    for (i, op) in sc.clients[0].iter().enumerate() {
        if stuck && i == stuck_from {
            sim.set_buggify("record_write", 1000);
        }
        match op {
            Op::Settle => {
                let _ = env.settle();
                continue;
            }
            Op::Advance { ns } => {
                sim.advance(Duration::from_nanos(*ns));
                continue;
            }
            _ => {}
        }
        let now = sim.now_wall();
        let view = |k: &[u8]| -> Option<Gen> { model.map.get(k).cloned() };
        let Some(call) = harness::resolve_call(op, &mut resolver, &view, now, Some(env.st())) else { continue };
        let bytes_api = matches!(op, Op::Insert { bytes: true, .. } | Op::Get { bytes: true, .. });
        let reads_before = read_faults_fired(&disk);
        let now0 = sim.now_wall();
        let invoke = sim.next_event();
        sim.op_begin(call.name());
        let res = harness::exec_call(env.st(), &call, bytes_api);
        sim.op_end();
        let ret = sim.next_event();
        let now1 = sim.now_wall();
        report.ops += 1;
        report.count(&format!("op.{}", call.name()), 1);
        let read_fault_in_call = read_faults_fired(&disk) > reads_before;
        if let Call::Flush = call {
            match &res {
                Res::Unit => {
                    acks.push((invoke, ret));
                    report.count("flush_ok", 1);
                    // (1) an Ok flush means the durable image holds the current state
                    let quiet = env.st().verif_shard_counts().iter().all(|c| *c == 0);
                    if quiet {
                        if let Err(f) = checks::check_durable_image(&env, &model, !faulty) {
                            bail!(f.rule, format!("op #{i}: flush() returned Ok but {}", f.detail));
                        }
                        report.count("ack_image_checks", 1);
                    }
                }
                Res::Err(ErrKind::OutOfSpace) => {
                    report.count("flush_out_of_space", 1);
                    break;
                }
                Res::Err(e @ (ErrKind::Io | ErrKind::Indeterminate)) => {
                    if faults_fired(&disk) == 0 && record_write_failures(sim) == 0 {
                        bail!("flush-failed-without-fault", format!("op #{i}: flush() returned {e:?} although the device never failed"));
                    }
                    poisoned |= *e == ErrKind::Indeterminate;
                    report.count(&format!("flush_err_{e:?}"), 1);
                    // (3) reads keep returning the latest accepted values
                    for (k, g) in &model.map {
                        let before = read_faults_fired(&disk);
                        match env.st().get(k) {
                            Ok(v) if v == g.value => {}
                            Err(feoxdb::FeoxError::IoError(_)) if read_faults_fired(&disk) > before => {}
                            other => bail!(
                                "read-after-failed-flush",
                                format!("op #{i}: after a failed flush get({}) returned {:?} instead of the latest accepted {} byte value", show(k), other.map(|v| v.len()), g.value.len())
                            ),
                        }
                    }
                    // (2) the device as it stands still recovers to something no older than the last ack
                    if image_checks < 2 {
                        image_checks += 1;
                        if let Err((rule, detail)) = check_images(sim, sc, &disk, &hist, &acks, report, pick, &format!("{plan_label} after failed flush at op #{i}")) {
                            bail!(&rule, detail);
                        }
                    }
                }
                Res::Err(e) => bail!("flush-unexpected-error", format!("op #{i}: flush() returned {e:?}")),
                _ => {}
            }
            continue;
        }
        if let Res::Err(ErrKind::Io) = &res {
            if read_fault_in_call {
                report.count("read_error_reported", 1);
                // the failed call must not have changed anything
                let obs = call.key().and_then(|k| env.obs(k));
                if let Some(k) = call.key() {
                    let m = model.map.get(k);
                    let same = match (m, &obs) {
                        (None, None) => true,
                        (Some(g), Some(o)) => g.ts == o.ts && g.value.len() == o.value_len,
                        _ => false,
                    };
                    if !same {
                        bail!("failed-call-changed-state", format!("op #{i}: {} failed with an I/O error but the key changed", call.brief()));
                    }
                }
                continue;
            }
            bail!("io-error-without-read-fault", format!("op #{i}: {} returned an I/O error although no read fault was injected into it", call.brief()));
        }
        let obs = call.key().and_then(|k| env.obs(k));
        let norm = harness::normalise_call(&call);
        let before = call.key().and_then(|k| model.map.get(k).cloned());
        if let Err(f) = model.step(&norm, &res, obs.as_ref(), now0, now1) {
            bail!(f.rule, format!("op #{i}: {}", f.detail));
        }
        if let Some(key) = call.key() {
            let after = model.map.get(key).cloned();
            if after != before {
                hist.entry(key.to_vec()).or_default().push(Trans { state: after, ret });
            }
        }
    }

    if let Some(h) = flusher2.take() {
        let _ = h.join();
        let mut more = acks2.lock().unwrap().clone();
        report.count("second_flusher_acks", more.len() as u64);
        acks.append(&mut more);
        acks.sort();
    }
    let dry = DryInfo {
        calls: disk.calls(),
        calls_after_open,
        trace: disk.log().iter().map(|e| (e.call, e.op)).collect(),
    };
    if stuck {
        if stuck_from >= sc.clients[0].len() {
            sim.set_buggify("record_write", 1000);
        }
        // one more modification, so that something is buffered when the store is closed
        let key = b"stuck:last".to_vec();
        let value = harness::plain_value(252, 8, 2, 100 + pick.below(6000) as usize);
        let last_ret = match env.st().insert(&key, &value) {
            Ok(_) => Some(sim.next_event()),
            Err(_) => None,
        };
        if let Some(ret) = last_ret {
            hist.entry(key.clone()).or_default().push(Trans { state: Some(Gen { value: value.clone(), ts: env.obs(&key).map(|o| o.ts).unwrap_or(0), expiry: 0 }), ret });
        }
        report.count("stuck_device_closes", 1);
        let (t0, s0) = (sim.now_mono(), sim.stats().steps);
        sim.op_begin("close");
        env.close();
        sim.op_end();
        report.count("stuck_close_virtual_ms_sum", (sim.now_mono() - t0) / 1_000_000);
        report.count("stuck_close_steps_sum", sim.stats().steps - s0);
        let failed = record_write_failures(sim);
        report.count("record_write_failures", failed);
        report.nontrivial = failed > 0;
        sim.set_buggify("record_write", 0);
        feoxdb::verif::process_restart();
        if let Err(e) = env.open() {
            bail!("reopen-failed-after-fault", format!("after closing the store on a device whose record writes kept failing the file cannot be opened: {e:?}"));
        }
        let got: Contents = match contents(&env) {
            Ok(c) => c,
            Err((rule, detail)) => bail!(&rule, detail),
        };
        let run = WorkloadRun {
            capture: disk.capture_now(),
            hist: hist.clone(),
            acks: acks.clone(),
            calls: 0,
            first_ack_call: None,
            ack_calls: Vec::new(),
            site_calls: Vec::new(),
            crashed_inside: false,
            focus_calls: Vec::new(),
        };
        let (len, idx) = (env.st().len(), env.st().verif_hash_keys().len());
        if let Err((rule, detail)) = check_recovered(&run, &got, len, idx, false, sim.now_wall(), &format!("{plan_label} reopen after a close on a stuck device")) {
            bail!(&rule, detail);
        }
        let r = env.st().insert(b"heal:probe", &harness::plain_value(251, 8, 1, 300)).and_then(|_| env.st().flush());
        match r {
            Ok(()) | Err(feoxdb::FeoxError::OutOfSpace) => {}
            Err(e) => bail!("no-heal", format!("after reopening, a new write cannot be flushed: {e:?}")),
        }
    } else if faulty {
        let fired = faults_fired(&disk);
        report.count("faults_fired", fired);
        if fired > 0 {
            report.nontrivial = true;
        }
        // (2) before healing: what is on the device now must still be recoverable
        if let Err((rule, detail)) = check_images(sim, sc, &disk, &hist, &acks, report, pick, &format!("{plan_label} at end of workload")) {
            bail!(&rule, detail);
        }
        // (4) healing
        disk.clear_faults();
        let mut healed = false;
        let mut indeterminate = poisoned;
        for attempt in 0..3 {
            sim.op_begin("flush");
            let r = env.st().flush();
            sim.op_end();
            match r {
                Ok(()) => {
                    healed = true;
                    let ev = sim.next_event();
                    acks.push((ev, ev));
                    break;
                }
                Err(feoxdb::FeoxError::IndeterminateWrite(_)) => {
                    indeterminate = true;
                    break;
                }
                Err(feoxdb::FeoxError::OutOfSpace) => {
                    report.count("heal_out_of_space", 1);
                    drop(resolver);
                    report.disk = disk.stats();
                    env.cleanup();
                    return Some(dry);
                }
                Err(feoxdb::FeoxError::IoError(_)) if attempt < 2 => {
                    sim.advance(Duration::from_millis(200));
                }
                Err(e) => bail!("no-heal", format!("the device works again but flush() attempt #{attempt} still fails with {e:?}")),
            }
        }
        if healed {
            report.count("healed_by_flush", 1);
            let quiet = env.st().verif_shard_counts().iter().all(|c| *c == 0);
            if quiet {
                if let Err(f) = checks::check_durable_image(&env, &model, false) {
                    bail!(f.rule, format!("after the device healed flush() returned Ok but {}", f.detail));
                }
            }
        } else if indeterminate {
            report.count("healed_by_reopen", 1);
            env.close();
            feoxdb::verif::process_restart();
            if let Err(e) = env.open() {
                bail!("reopen-failed-after-indeterminate", format!("reopening after an indeterminate failure failed: {e:?}"));
            }
            let got: Contents = match contents(&env) {
                Ok(c) => c,
                Err((rule, detail)) => bail!(&rule, detail),
            };
            let run = WorkloadRun {
                capture: disk.capture_now(),
                hist: hist.clone(),
                acks: acks.clone(),
                calls: 0,
                first_ack_call: None,
                ack_calls: Vec::new(),
                site_calls: Vec::new(),
                crashed_inside: false,
                focus_calls: Vec::new(),
            };
            let (len, idx) = (env.st().len(), env.st().verif_hash_keys().len());
            if let Err((rule, detail)) = check_recovered(&run, &got, len, idx, false, sim.now_wall(), &format!("{plan_label} reopen after indeterminate failure")) {
                bail!(&rule, detail);
            }
            // new writes flush fine
            let key = b"heal:probe".to_vec();
            let value = harness::plain_value(251, 8, 1, 300);
            let r = env.st().insert(&key, &value).and_then(|_| env.st().flush());
            match r {
                Ok(()) | Err(feoxdb::FeoxError::OutOfSpace) => {}
                Err(e) => bail!("no-heal", format!("after reopening, a new write cannot be flushed: {e:?}")),
            }
        } else {
            bail!("no-heal", "three flush() attempts after the faults stopped neither succeeded nor reported an indeterminate state");
        }
    } else if env.store.is_some() {
        // fault-free reference run: everything must be clean
        if let Err(f) = checks::check_accounting(&env, &model) {
            bail!(f.rule, f.detail);
        }
    }
    drop(resolver);
    report.disk = disk.stats();
    report.extra_hash = mix(report.extra_hash, disk.calls());
    env.cleanup();
    Some(dry)
}
