//! `cache`: the CLOCK read cache on its own, sequentially and under 2-3 simulated threads,
//! with the smallest watermarks its API allows. Serves C16(c).

use std::collections::BTreeMap;
use std::sync::{Arc, Mutex};

use bytes::Bytes;
use feoxdb::core::cache::ClockCache;
use feoxdb::stats::Statistics;

use crate::disk::FaultPlan;
use crate::runner::{BodyReport, Engine};
use crate::scenario::*;
use crate::sched::{Sim, SimConfig, Strategy};
use crate::tape::{mix, Tape};

pub struct CacheEngine;

const MB: usize = 1024 * 1024;

#[derive(Clone, Debug)]
enum COp {
    Insert { key: usize, len: usize },
    Get { key: usize },
    Remove { key: usize },
    Evict,
    Clear,
    Watermarks { high: usize, low: usize },
}

fn decode_ops(ops: &[Op]) -> Vec<COp> {
    // cache operations are carried in the generic scenario as Insert/Get/Delete/Flush/Reopen/Range
    ops.iter()
        .map(|op| match op {
            Op::Insert { key, val, .. } => COp::Insert { key: *key, len: val.len },
            Op::Get { key, .. } => COp::Get { key: *key },
            Op::Delete { key, .. } => COp::Remove { key: *key },
            Op::Flush => COp::Evict,
            Op::Reopen => COp::Clear,
            Op::Range { limit, .. } => COp::Watermarks { high: 1 + limit % 3, low: limit / 3 % 2 },
            _ => COp::Evict,
        })
        .collect()
}

impl Engine for CacheEngine {
    fn name(&self) -> &'static str {
        "cache"
    }

    fn nontrivial_rule(&self, _property: &str) -> String {
        "run performed >= 1 eviction pass that removed an entry or >= 1 hit/miss after a remove; distinct = distinct hash of (operation lists, interleaving)".into()
    }

    fn generate(&self, property: &str, seed: u64, tier: &str) -> Scenario {
        let mut c = Tape::fresh(mix(seed, 0xC0F6));
        let mut w = Tape::fresh(mix(seed, 0x3017));
        let n_clients = 1 + c.below(3) as usize;
        let n_keys = 3 + c.below(22) as usize;
        let (wm_high, wm_low) = *c.pick(&[(1i64, 0i64), (2, 1), (3, 1), (3, 2), (4, 2), (2, 0)]);
        let uniform = if c.chance(1, 2) { *c.pick(&[100usize * 1024, 150 * 1024, 200 * 1024, 250 * 1024]) } else { 0 };
        let keys: Vec<Vec<u8>> = (0..n_keys).map(|i| format!("ck{i}").into_bytes()).collect();
        let sim = SimConfig {
            strategy: match c.below(3) {
                0 => Strategy::Random,
                1 => Strategy::Sticky(300),
                _ => Strategy::Pct(2),
            },
            tick_ns: 0,
            hash_seed: c.u64(),
            ..SimConfig::default()
        };
        let mut clients = Vec::new();
        for _ in 0..n_clients {
            let n = 6 + w.below(if tier == "thorough" { 120 } else { 60 }) as usize;
            let mut ops = Vec::new();
            for _ in 0..n {
                let key = w.below(n_keys as u32) as usize;
                ops.push(match w.below(20) {
                    0..=8 => Op::Insert {
                        key,
                        val: Val { len: if uniform != 0 { uniform } else { *w.pick(&[64usize * 1024, 100 * 1024, 200 * 1024, 250 * 1024, 300 * 1024, 500 * 1024, 1000]) }, kind: ValKind::Plain },
                        ts: Ts::Auto,
                        ttl: 0,
                        bytes: false,
                    },
                    9..=13 => Op::Get { key, bytes: false },
                    14 | 15 => Op::Delete { key, ts: Ts::Auto },
                    16 | 17 => Op::Flush,
                    18 if w.chance(1, 3) => Op::Reopen,
                    19 if w.chance(1, 3) => Op::Range { start: Bound::Empty, end: Bound::Max, limit: w.below(6) as usize },
                    _ => Op::Get { key, bytes: false },
                });
            }
            clients.push(ops);
        }
        let _ = property;
        Scenario {
            engine: "cache".into(),
            property: property.into(),
            seed,
            sim,
            store: StoreCfg::default(),
            keys,
            clients,
            faults: FaultPlan::default(),
            knobs: BTreeMap::from([("wm_high".to_string(), wm_high), ("wm_low".to_string(), wm_low)]),
        }
    }

    fn body(&self, sim: &Arc<Sim>, sc: &Scenario) -> BodyReport {
        let mut report = BodyReport::default();
        let stats = Arc::new(Statistics::new());
        let cache = Arc::new(ClockCache::new(Arc::clone(&stats)));
        let (wm_high, wm_low) = (sc.knob("wm_high", 1) as usize, sc.knob("wm_low", 0) as usize);
        cache.adjust_watermarks(wm_high, wm_low);
        let overhead = ClockCache::verif_entry_overhead();
        let problems: Arc<Mutex<Vec<(String, String)>>> = Arc::new(Mutex::new(Vec::new()));
        let counters: Arc<Mutex<BTreeMap<String, u64>>> = Arc::new(Mutex::new(BTreeMap::new()));
        let sequential = sc.clients.len() == 1;
        let mut handles = Vec::new();
        for (ci, ops) in sc.clients.iter().enumerate().skip(1) {
            let (cache2, stats2, keys2, ops2, p2, c2) = (Arc::clone(&cache), Arc::clone(&stats), sc.keys.clone(), decode_ops(ops), Arc::clone(&problems), Arc::clone(&counters));
            feoxdb::verif::thread::name_next_spawn("client");
            handles.push(feoxdb::verif::thread::spawn(move || {
                run_ops(&cache2, &stats2, &keys2, &ops2, ci, false, overhead, (wm_high, wm_low), &p2, &c2);
            }));
        }
        run_ops(&cache, &stats, &sc.keys, &decode_ops(&sc.clients[0]), 0, sequential, overhead, (wm_high, wm_low), &problems, &counters);
        for h in handles {
            let _ = h.join();
        }
        // quiescent: accounting is exact
        if let Err(e) = check_accounting(&cache, &stats, overhead) {
            problems.lock().unwrap().push(e);
        }
        // and clear() empties it completely
        cache.clear();
        if stats.cache_memory.load(std::sync::atomic::Ordering::Relaxed) != 0 || !cache.verif_entries().is_empty() {
            problems.lock().unwrap().push((
                "cache-clear-incomplete".into(),
                format!("after clear() the cache reports {} bytes and holds {} entries", stats.cache_memory.load(std::sync::atomic::Ordering::Relaxed), cache.verif_entries().len()),
            ));
        }
        for (k, v) in counters.lock().unwrap().iter() {
            report.count(k, *v);
        }
        report.ops = sc.op_count() as u64;
        if let Some((rule, detail)) = problems.lock().unwrap().first().cloned() {
            report.fail(&rule, detail);
        }
        report.nontrivial = report.counters.get("evicted_entries").copied().unwrap_or(0) > 0 || report.counters.get("get_after_remove").copied().unwrap_or(0) > 0;
        report.extra_hash = mix(sc.op_count() as u64, sc.clients.len() as u64);
        let _ = sim;
        report
    }
}

fn check_accounting(cache: &ClockCache, stats: &Statistics, overhead: usize) -> Result<(), (String, String)> {
    let entries = cache.verif_entries();
    let mut sum = 0usize;
    let mut seen = std::collections::BTreeSet::new();
    for (key, size, value_len, _, _) in &entries {
        if *size != key.len() + value_len + overhead {
            return Err(("cache-entry-size".into(), format!("entry {:?} accounts {size} bytes but holds {} + {value_len} + {overhead}", String::from_utf8_lossy(key), key.len())));
        }
        if !seen.insert(key.clone()) {
            return Err(("cache-duplicate-entry".into(), format!("key {:?} is cached twice", String::from_utf8_lossy(key))));
        }
        sum += size;
    }
    let reported = stats.cache_memory.load(std::sync::atomic::Ordering::Relaxed);
    if reported != sum {
        return Err(("cache-accounting".into(), format!("cache reports {reported} bytes but its {} entries total {sum}", entries.len())));
    }
    if cache.stats().memory_usage != reported {
        return Err(("cache-accounting".into(), "stats() disagrees with the shared counter".into()));
    }
    Ok(())
}

#[allow(clippy::too_many_arguments)]
fn run_ops(
    cache: &ClockCache,
    stats: &Statistics,
    keys: &[Vec<u8>],
    ops: &[COp],
    client: usize,
    sequential: bool,
    overhead: usize,
    watermarks: (usize, usize),
    problems: &Mutex<Vec<(String, String)>>,
    counters: &Mutex<BTreeMap<String, u64>>,
) {
    // sequential model: key -> value currently cached (if the cache still holds it)
    let mut model: BTreeMap<usize, Vec<u8>> = BTreeMap::new();
    let mut high = watermarks.0 * MB;
    let mut low = watermarks.1 * MB;
    let mut counter = 0u32;
    let bump = |name: &str, n: u64| {
        *counters.lock().unwrap().entry(name.to_string()).or_insert(0) += n;
    };
    let fail = |rule: &str, detail: String| {
        problems.lock().unwrap().push((rule.to_string(), detail));
    };
    for (i, op) in ops.iter().enumerate() {
        counter += 1;
        feoxdb::verif::yield_point("cache.between_ops");
        match op {
            COp::Insert { key, len } => {
                let value = crate::harness::plain_value(*key, client as u8, counter, *len);
                let before = if sequential { cache.verif_entries() } else { Vec::new() };
                let usage = stats.cache_memory.load(std::sync::atomic::Ordering::Relaxed);
                cache.insert(keys[*key].clone(), Bytes::from(value.clone()));
                bump("op.insert", 1);
                if sequential {
                    let size = keys[*key].len() + len + overhead;
                    if size > high / 4 {
                        // too large to cache: an older entry stays as it is
                    } else {
                        model.insert(*key, value);
                    }
                    // an insert over the high watermark sweeps first: same rules as an explicit sweep
                    let after = cache.verif_entries();
                    let evicted: Vec<&(Vec<u8>, usize, usize, bool, bool)> = before.iter().filter(|e| e.0 != keys[*key] && !after.iter().any(|a| a.0 == e.0)).collect();
                    if !evicted.is_empty() {
                        let after_sweep: usize = after.iter().filter(|a| a.0 != keys[*key] || before.iter().any(|b| b.0 == a.0)).map(|a| if a.0 == keys[*key] { before.iter().find(|b| b.0 == a.0).map(|b| b.1).unwrap_or(0) } else { a.1 }).sum();
                        let largest = evicted.iter().map(|e| e.1).max().unwrap();
                        bump("evicted_entries", evicted.len() as u64);
                        bump("eviction_passes_with_evictions", 1);
                        if low > 0 {
                            bump("eviction_passes_with_nonzero_low_watermark", 1);
                        }
                        if usage > low && after_sweep + largest <= low {
                            fail(
                                "eviction-went-too-far",
                                format!("op #{i}: the sweep triggered by an insert started at {usage} bytes and ended at {after_sweep}; even without its largest eviction ({largest} bytes) usage would have been at or below the low watermark {low}"),
                            );
                        }
                        let unref: usize = before.iter().filter(|e| !e.3).map(|e| e.1).sum();
                        if usage > low && unref >= usage - low {
                            for e in evicted.iter().filter(|e| e.3) {
                                fail(
                                    "evicted-referenced-entry",
                                    format!("op #{i}: entry {:?} had been referenced since the last sweep and was evicted by the sweep an insert triggered although unreferenced entries ({unref} bytes) covered the {} bytes to free", String::from_utf8_lossy(&e.0), usage - low),
                                );
                            }
                        }
                        model.retain(|k, _| after.iter().any(|a| a.0 == keys[*k]));
                    }
                }
            }
            COp::Get { key } => {
                let got = cache.get(&keys[*key]);
                bump("op.get", 1);
                if sequential {
                    match (&got, model.get(key)) {
                        (Some(v), Some(m)) => {
                            if v.as_ref() != m.as_slice() {
                                fail("cache-stale-hit", format!("op #{i}: get returned a value that is not the last one inserted for the key"));
                            }
                            bump("hits", 1);
                        }
                        (Some(_), None) => fail("cache-hit-after-remove", format!("op #{i}: get hit for a key that was removed, cleared or never inserted")),
                        (None, Some(_)) => {
                            // evicted: legal
                            model.remove(key);
                        }
                        (None, None) => bump("get_after_remove", 1),
                    }
                } else if let Some(v) = &got {
                    // concurrent: at least a genuine value of this key
                    match crate::harness::value_is_self_consistent(v) {
                        Some((k, _, _)) if k == *key => {}
                        _ => fail("cache-stale-hit", format!("client {client} op #{i}: get returned bytes that were never inserted for this key")),
                    }
                }
            }
            COp::Remove { key } => {
                cache.remove(&keys[*key]);
                bump("op.remove", 1);
                if sequential {
                    model.remove(key);
                    if cache.get(&keys[*key]).is_some() {
                        fail("cache-hit-after-remove", format!("op #{i}: a get right after remove() hit"));
                    }
                    bump("get_after_remove", 1);
                }
            }
            COp::Evict => {
                let before = cache.verif_entries();
                let usage = stats.cache_memory.load(std::sync::atomic::Ordering::Relaxed);
                cache.evict_entries();
                bump("op.evict", 1);
                if sequential {
                    let after = cache.verif_entries();
                    let now = stats.cache_memory.load(std::sync::atomic::Ordering::Relaxed);
                    bump("evicted_entries", (before.len() - after.len()) as u64);
                    if usage > low && now > low {
                        fail("eviction-stopped-early", format!("op #{i}: eviction started at {usage} bytes, low watermark {low}, but stopped at {now}"));
                    }
                    let evicted_sizes: Vec<usize> = before.iter().filter(|e| !after.iter().any(|a| a.0 == e.0)).map(|e| e.1).collect();
                    if let Some(largest) = evicted_sizes.iter().max() {
                        if usage > low && now + largest <= low {
                            fail(
                                "eviction-went-too-far",
                                format!("op #{i}: eviction started at {usage} bytes and ended at {now}; even without its largest eviction ({largest} bytes) usage would have been at or below the low watermark {low}: {} entries evicted", evicted_sizes.len()),
                            );
                        }
                        bump("eviction_passes_with_evictions", 1);
                        if low > 0 {
                            bump("eviction_passes_with_nonzero_low_watermark", 1);
                        }
                    }
                    if usage <= low && after.len() != before.len() {
                        fail("eviction-below-watermark", format!("op #{i}: usage {usage} was already at or below the low watermark {low} but entries were evicted"));
                    }
                    // recently referenced entries survive when unreferenced ones suffice
                    let unref: usize = before.iter().filter(|e| !e.3).map(|e| e.1).sum();
                    if usage > low && unref >= usage - low {
                        for e in before.iter().filter(|e| e.3) {
                            if !after.iter().any(|a| a.0 == e.0) {
                                fail(
                                    "evicted-referenced-entry",
                                    format!("op #{i}: entry {:?} had been referenced since the last sweep and was evicted although unreferenced entries ({unref} bytes) covered the {} bytes to free", String::from_utf8_lossy(&e.0), usage - low),
                                );
                            }
                        }
                    }
                    model.retain(|k, _| after.iter().any(|a| a.0 == keys[*k]));
                }
            }
            COp::Clear => {
                cache.clear();
                bump("op.clear", 1);
                if sequential {
                    model.clear();
                    if !cache.verif_entries().is_empty() {
                        fail("cache-clear-incomplete", format!("op #{i}: entries left after clear()"));
                    }
                }
            }
            COp::Watermarks { high: h, low: l } => {
                if h > l {
                    let usage = stats.cache_memory.load(std::sync::atomic::Ordering::Relaxed);
                    cache.adjust_watermarks(*h, *l);
                    high = h * MB;
                    low = l * MB;
                    bump("op.adjust_watermarks", 1);
                    if sequential {
                        // a cache that holds more than its new ceiling is swept at once, and a sweep
                        // goes down to the (new) low watermark like any other
                        let now = stats.cache_memory.load(std::sync::atomic::Ordering::Relaxed);
                        if usage > high {
                            bump("watermark_changes_that_trigger_a_sweep", 1);
                            if now > low {
                                fail("eviction-stopped-early", format!("op #{i}: adjust_watermarks({h}, {l}) found {usage} bytes cached, above the new high watermark, and the sweep it triggered stopped at {now}, above the new low watermark {low}"));
                            }
                        } else if now != usage {
                            fail("eviction-below-watermark", format!("op #{i}: adjust_watermarks({h}, {l}) evicted entries although usage {usage} was not above the new high watermark {high}"));
                        }
                        let after = cache.verif_entries();
                        model.retain(|k, _| after.iter().any(|a| a.0 == keys[*k]));
                    }
                }
            }
        }
        if sequential {
            if let Err(e) = check_accounting(cache, stats, overhead) {
                problems.lock().unwrap().push((e.0, format!("after op #{i} {op:?}: {}", e.1)));
                return;
            }
            let usage = stats.cache_memory.load(std::sync::atomic::Ordering::Relaxed);
            if usage > high + high / 4 {
                fail("cache-over-high-watermark", format!("after op #{i}: usage {usage} exceeds the high watermark {high} by more than one entry"));
            }
        }
        if !problems.lock().unwrap().is_empty() {
            return;
        }
    }
}
