//! `seq`: one client, the whole API, against the sequential reference model, in every
//! configuration; background flush workers are interleaved by the scheduler, so the tier a
//! value is read from is decided by the schedule. Serves C01 C10 C11 C12 C13 C14 C16(a) C05.

use std::collections::BTreeMap;
use std::sync::Arc;
use std::time::Duration;

use crate::checks;
use crate::harness::{self, Env, Resolver};
use crate::model::{Call, Gen, Model, Res};
use crate::runner::{BodyReport, Engine};
use crate::scenario::*;
use crate::sched::{Sim, SimConfig, Strategy};
use crate::tape::{mix, run_seed, Tape};

pub struct SeqEngine;

struct Profile {
    explicit_ts: u32,
    ttl_ops: u32,
    time_ops: u32,
    reopen: u32,
    range: u32,
    forged: bool,
    extreme_ts: bool,
    tight_memory: u32,
    force_persistent: Option<bool>,
    force_ttl: Option<bool>,
    force_cache: Option<bool>,
    differential: bool,
    min_ops: u32,
    max_ops: u32,
    frozen_clock: u32,
}

fn profile(property: &str) -> Profile {
    let base = Profile {
        explicit_ts: 35,
        ttl_ops: 12,
        time_ops: 6,
        reopen: 4,
        range: 8,
        forged: false,
        extreme_ts: false,
        tight_memory: 10,
        force_persistent: None,
        force_ttl: None,
        force_cache: None,
        differential: false,
        min_ops: 20,
        max_ops: 120,
        frozen_clock: 50,
    };
    match property {
        "C10" => Profile { force_persistent: Some(true), reopen: 3, ..base },
        "C05" => Profile { force_persistent: Some(true), reopen: 5, tight_memory: 0, ..base },
        "C11" => Profile { force_ttl: Some(true), ttl_ops: 40, time_ops: 25, frozen_clock: 75, ..base },
        "C12" => Profile { explicit_ts: 55, extreme_ts: true, reopen: 8, time_ops: 12, tight_memory: 35, ..base },
        "C13" => Profile { tight_memory: 60, ..base },
        "C14" => Profile { range: 30, ..base },
        "C16" => Profile {
            force_persistent: Some(true),
            force_cache: Some(true),
            differential: true,
            frozen_clock: 100,
            tight_memory: 0,
            ..base
        },
        _ => base,
    }
}

fn gen_val(t: &mut Tape, p: &Profile, blocks_cap: usize) -> Val {
    match t.below(20) {
        0 | 1 => Val { len: 8, kind: ValKind::Counter(t.below(1000) as i64 - 500) },
        2 | 3 => Val { len: 30 + t.below(300) as usize, kind: ValKind::Json },
        4 if p.forged && blocks_cap >= 3 => Val {
            len: (2 + t.below((blocks_cap as u32 - 1).min(4)) as usize) * 4096,
            kind: ValKind::Forged,
        },
        _ => Val { len: gen_len(t, blocks_cap), kind: ValKind::Plain },
    }
}

fn gen_ttl(t: &mut Tape) -> u64 {
    match t.below(6) {
        0 => 1,
        1 => 2 + t.below(10) as u64,
        2 => 60,
        3 => 3600,
        // saturating arithmetic: the largest TTL whose nanoseconds still fit, the first that does not,
        // powers of two whose nanosecond count wraps to zero, the extremes
        4 => *t.pick(&[u64::MAX / 1_000_000_000, u64::MAX / 1_000_000_000 + 1, 1 << 55, 1 << 63, u64::MAX, u64::MAX / 2, 18_446_744_074]),
        _ => 1 + t.below(5) as u64,
    }
}

fn gen_ts_for(t: &mut Tape, p: &Profile) -> Ts {
    if p.extreme_ts && t.chance(6, 100) {
        return match t.below(4) {
            0 => Ts::MaxMinus(0),
            1 => Ts::MaxMinus(1),
            2 => Ts::MaxMinus(2 + t.below(1000) as u64),
            _ => Ts::Abs(1),
        };
    }
    gen_ts(t, p.explicit_ts)
}

impl Engine for SeqEngine {
    fn name(&self) -> &'static str {
        "seq"
    }

    fn nontrivial_rule(&self, property: &str) -> String {
        match property {
            "C10" | "C05" => "run acknowledged >= 1 flush with >= 1 live record and passed the image/partition oracle at it; distinct = distinct hash of (scenario, schedule, results)".into(),
            "C11" => "run read >= 1 key carrying an expiry (before or after its expiry instant); distinct by case hash".into(),
            "C12" => "run had >= 1 automatically timestamped write checked against a previous generation or accepted explicit timestamp; distinct by case hash".into(),
            "C13" => "run checked memory_usage()/len() after >= 5 mutating calls; distinct by case hash".into(),
            "C14" => "run executed >= 1 range query over a non-empty store; distinct by case hash".into(),
            "C16" => "run executed the same tape with cache on and off and >= 1 read was served from the cache; distinct by case hash".into(),
            _ => "run executed >= 10 calls and >= 1 read of a key that exists; distinct = distinct hash of (scenario, schedule, results)".into(),
        }
    }

    fn generate(&self, property: &str, seed: u64, tier: &str) -> Scenario {
        let p = profile(property);
        let mut c = Tape::fresh(mix(seed, 0xC0F6));
        let mut w = Tape::fresh(mix(seed, 0x3017));
        let persistent = p.force_persistent.unwrap_or_else(|| c.chance(65, 100));
        let format = if persistent {
            *c.pick(&[3u32, 3, 3, 2, 1])
        } else {
            3
        };
        let ttl = p.force_ttl.unwrap_or_else(|| c.chance(50, 100));
        let cache = p.force_cache.unwrap_or_else(|| c.chance(50, 100));
        let data_blocks = *c.pick(&[24u64, 40, 64, 128, 256]);
        let n_keys = 1 + c.below(10) as usize;
        let max_key = if persistent {
            if format == 1 { crate::model::MAX_RECOVERABLE_KEY_V1 } else { crate::model::MAX_RECOVERABLE_KEY }
        } else {
            5000
        };
        let keys = gen_keys(&mut c, n_keys, max_key);
        let blocks_cap = ((data_blocks / 6) as usize).clamp(1, 18);
        let overhead = feoxdb::FeoxStore::verif_record_overhead();
        let max_memory = if c.chance(p.tight_memory, 100) {
            Some((overhead + 64) * (1 + c.below(6) as usize) + c.below(6000) as usize)
        } else {
            None
        };
        let frozen = c.chance(p.frozen_clock, 100) || p.differential;
        let shards = 1 + c.below(4) as usize;
        let workers = 1 + c.below(shards as u32) as usize;
        let strategy = match c.below(4) {
            0 => Strategy::Random,
            1 => Strategy::Sticky(*c.pick(&[20u32, 100, 300])),
            2 => Strategy::Pct(1 + c.below(3)),
            _ => Strategy::Starve(1 + c.below(3)),
        };
        let sim = SimConfig {
            strategy,
            tick_ns: if frozen { 0 } else { *c.pick(&[100u64, 1_000, 20_000, 1_000_000]) },
            shards,
            workers,
            hash_seed: c.u64(),
            frozen_wall: frozen,
            ..SimConfig::default()
        };
        let store = StoreCfg {
            persistent,
            format,
            cache,
            ttl,
            hash_bits: 2 + c.below(6),
            data_blocks,
            max_memory,
            sweeper: None,
            create_empty_file: format == 3 && c.chance(1, 4),
            allow_ambiguous: false,
            ring: gen_ring(seed),
        };

        let n_ops = p.min_ops + w.below(p.max_ops - p.min_ops + 1);
        let n_ops = if tier == "thorough" { n_ops * 2 } else { n_ops };
        let mut ops = Vec::new();
        let nk = keys.len() as u32;
        for _ in 0..n_ops {
            let key = w.below(nk) as usize;
            let roll = w.below(100);
            let op = if roll < p.time_ops && ttl {
                match w.below(5) {
                    0 => Op::WallToExpiry { key, delta: -1 },
                    1 => Op::WallToExpiry { key, delta: 0 },
                    2 => Op::WallToExpiry { key, delta: 1 },
                    3 => Op::Advance { ns: *w.pick(&[1_000_000u64, 150_000_000, 1_100_000_000, 5_000_000_000]) },
                    _ => Op::WallJump { ns: *w.pick(&[-3_000_000_000i64, -1, 1, 2_000_000_000, 61_000_000_000]) },
                }
            } else if roll < p.time_ops + p.reopen && persistent {
                match w.below(4) {
                    0 => Op::Reopen,
                    1 => Op::Settle,
                    _ => Op::Flush,
                }
            } else if roll < p.time_ops + p.reopen + p.range {
                let b = |w: &mut Tape| match w.below(8) {
                    0 => Bound::Empty,
                    1 => Bound::Max,
                    2 => Bound::After(w.below(nk) as usize),
                    3 => Bound::Before(w.below(nk) as usize),
                    4 => Bound::Raw(vec![w.below(256) as u8]),
                    _ => Bound::Key(w.below(nk) as usize),
                };
                let (start, end) = if w.chance(1, 2) { (Bound::Empty, Bound::Max) } else { (b(&mut w), b(&mut w)) };
                Op::Range { start, end, limit: *w.pick(&[0usize, 1, 2, 3, 5, 100, usize::MAX]) }
            } else if roll < p.time_ops + p.reopen + p.range + p.ttl_ops && (ttl || roll % 4 == 0) {
                // (a quarter of these also on stores without TTL support: every TTL call must then
                // be refused without any effect)
                match w.below(6) {
                    0 | 1 => Op::Insert { key, val: gen_val(&mut w, &p, blocks_cap), ts: gen_ts_for(&mut w, &p), ttl: gen_ttl(&mut w), bytes: w.chance(1, 2) },
                    2 => Op::UpdateTtl { key, ttl: gen_ttl(&mut w) },
                    3 => Op::Persist { key },
                    4 => Op::GetTtl { key },
                    _ => Op::Cas { key, expect: Expect::Current, val: gen_val(&mut w, &p, blocks_cap), ts: gen_ts_for(&mut w, &p), ttl: gen_ttl(&mut w) },
                }
            } else {
                match w.below(30) {
                    // (one insert in sixteen writes the value the key already holds)
                    0..=7 => Op::Insert { key, val: if roll % 16 == 5 { Val { len: 0, kind: ValKind::Plain } } else { gen_val(&mut w, &p, blocks_cap) }, ts: gen_ts_for(&mut w, &p), ttl: 0, bytes: w.chance(1, 2) },
                    8..=12 => Op::Get { key, bytes: w.chance(1, 2) },
                    13 => Op::GetSize { key },
                    14 => Op::Contains { key },
                    15..=17 => Op::Delete { key, ts: gen_ts_for(&mut w, &p) },
                    18..=20 => Op::Cas {
                        key,
                        expect: if w.chance(3, 4) { Expect::Current } else { Expect::Other },
                        // one swap in eight installs the value the key already holds
                        val: if roll % 8 == 3 { Val { len: 0, kind: ValKind::Plain } } else { gen_val(&mut w, &p, blocks_cap) },
                        ts: gen_ts_for(&mut w, &p),
                        ttl: if w.chance(1, 8) { gen_ttl(&mut w) } else { 0 },
                    },
                    21..=23 => Op::Incr {
                        key,
                        delta: *w.pick(&[1i64, -1, 5, 1000, i64::MAX, i64::MIN, 0]),
                        ts: gen_ts_for(&mut w, &p),
                        ttl: if w.chance(1, 8) { gen_ttl(&mut w) } else { 0 },
                    },
                    24 | 25 => Op::InsertIfAbsent { key, val: gen_val(&mut w, &p, blocks_cap) },
                    26 | 27 => Op::JsonPatch {
                        key,
                        patch: w.pick(&[Patch::ReplaceN, Patch::AddField, Patch::RemovePad, Patch::TestWrong, Patch::Garbage, Patch::NoOp, Patch::NoOp]).clone(),
                        ts: gen_ts_for(&mut w, &p),
                    },
                    28 => Op::BadInsert { which: w.below(6) as u8 },
                    _ => if persistent { Op::Flush } else { Op::Get { key, bytes: false } },
                }
            };
            ops.push(op);
        }
        let mut knobs = BTreeMap::new();
        knobs.insert("sweep_every".to_string(), *c.pick(&[0i64, 1, 3, 7]));
        knobs.insert("differential".to_string(), p.differential as i64);
        // "huge" family (own tape, 1 run in 120): values at and around the documented maximum of
        // 4 MiB (1025 blocks) and, in memory, a key of the maximal 100 KiB, on a device large
        // enough to hold two of them; everything else about the run stays as generated
        let mut h = Tape::fresh(mix(seed, 0x4B16));
        let (store, keys, ops) = if matches!(property, "C01" | "C05" | "C10" | "C13") && !p.differential && h.chance(1, 120) {
            let mut keys = keys;
            let mut ops = ops;
            ops.truncate(12);
            let store = StoreCfg { data_blocks: 2300, max_memory: None, ..store };
            let big_key = if !persistent {
                keys.push(vec![b'K'; crate::model::MAX_KEY - h.below(2) as usize]);
                keys.len() - 1
            } else {
                0
            };
            let lens = [crate::model::MAX_VALUE, crate::model::MAX_VALUE - 1, crate::model::MAX_VALUE - 4096 + 17, 1 << 20, 65536 * 4 + 3];
            let k0 = h.below(keys.len() as u32) as usize;
            let mut tail = vec![
                Op::Insert { key: k0, val: Val { len: *h.pick(&lens), kind: ValKind::Plain }, ts: Ts::Auto, ttl: 0, bytes: h.chance(1, 2) },
                Op::Get { key: k0, bytes: h.chance(1, 2) },
                Op::Insert { key: big_key, val: Val { len: 100 + h.below(5000) as usize, kind: ValKind::Plain }, ts: Ts::Auto, ttl: 0, bytes: false },
                Op::Flush,
                Op::Get { key: k0, bytes: false },
                Op::Reopen,
                Op::Get { key: k0, bytes: true },
                Op::Get { key: big_key, bytes: false },
                Op::Insert { key: k0, val: Val { len: *h.pick(&lens), kind: ValKind::Plain }, ts: Ts::Auto, ttl: 0, bytes: h.chance(1, 2) },
                Op::Flush,
                Op::Settle,
                Op::Insert { key: k0, val: Val { len: 10, kind: ValKind::Plain }, ts: Ts::Auto, ttl: 0, bytes: false },
                Op::Range { start: Bound::Empty, end: Bound::Max, limit: 100 },
                Op::Flush,
                Op::Reopen,
                Op::BadInsert { which: h.below(6) as u8 },
                Op::Delete { key: k0, ts: Ts::Auto },
                Op::Flush,
            ];
            ops.append(&mut tail);
            knobs.insert("huge".to_string(), 1);
            (store, keys, ops)
        } else {
            (store, keys, ops)
        };
        // "full" family (own tape): a device of 8-14 data blocks and records of 1-3 blocks, so that
        // flushes run out of space in the middle of a batch; the application reacts the way one
        // would - deletes something (written or not), flushes again, writes on - and the run goes
        // on across up to three such episodes (run_once). The end phases (everything deleted: one
        // free run, nothing on the device, refill) then see what the unusual exits left behind.
        let mut fu = Tape::fresh(mix(seed, 0xF011));
        let (store, keys, ops) = if matches!(property, "C01" | "C05" | "C10") && store.persistent && !p.differential && !knobs.contains_key("huge") && fu.chance(1, 8) {
            let blocks = 8 + fu.below(7) as u64;
            let n = 4 + fu.below(5) as usize;
            let keys: Vec<Vec<u8>> = (0..n).map(|i| format!("fu{i}").into_bytes()).collect();
            let val = |fu: &mut Tape| Val { len: match fu.below(4) { 0 => 100 + fu.below(3000) as usize, 1 => 4096 + fu.below(3000) as usize, 2 => 8192 + fu.below(3000) as usize, _ => 5 + fu.below(60) as usize }, kind: ValKind::Plain };
            let mut ops = Vec::new();
            // fill beyond the capacity, then alternate between making room and using it
            for key in 0..n {
                ops.push(Op::Insert { key, val: val(&mut fu), ts: Ts::Auto, ttl: 0, bytes: fu.chance(1, 2) });
                if fu.chance(1, 3) {
                    ops.push(Op::Flush);
                }
            }
            ops.push(Op::Flush);
            for _ in 0..6 + fu.below(10) {
                let key = fu.below(n as u32) as usize;
                match fu.below(10) {
                    0..=3 => ops.push(Op::Delete { key, ts: Ts::Auto }),
                    4..=6 => ops.push(Op::Insert { key, val: val(&mut fu), ts: Ts::Auto, ttl: 0, bytes: false }),
                    7 => ops.push(Op::Get { key, bytes: false }),
                    8 => ops.push(Op::Settle),
                    _ => ops.push(Op::Reopen),
                }
                if fu.chance(1, 2) {
                    ops.push(Op::Flush);
                }
            }
            ops.push(Op::Flush);
            knobs.insert("full".to_string(), 1);
            (StoreCfg { data_blocks: blocks, ttl: false, max_memory: None, ..store }, keys, ops)
        } else {
            (store, keys, ops)
        };
        Scenario {
            engine: "seq".into(),
            property: property.into(),
            seed,
            sim,
            store,
            keys,
            clients: vec![ops],
            faults: Default::default(),
            knobs,
        }
    }

    fn body(&self, sim: &Arc<Sim>, sc: &Scenario) -> BodyReport {
        let mut report = BodyReport::default();
        let first = run_once(sim, sc, &sc.store, &mut report, "a");
        if sc.knob("differential", 0) == 1 && report.violation.is_none() {
            let mut other = sc.store.clone();
            other.cache = !other.cache;
            let mut second_report = BodyReport::default();
            let second = run_once(sim, sc, &other, &mut second_report, "b");
            if let Some((rule, detail)) = second_report.violation {
                report.fail(&rule, format!("(cache={}) {detail}", other.cache));
            } else if first.len() == second.len() {
                for (i, (a, b)) in first.iter().zip(second.iter()).enumerate() {
                    if a.1 != b.1 {
                        report.fail(
                            "cache-not-transparent",
                            format!(
                                "call #{i} {} returned {} with cache={} but {} with cache={}",
                                a.0, a.1.brief(), sc.store.cache, b.1.brief(), other.cache
                            ),
                        );
                        break;
                    }
                }
            }
            report.count("differential_pairs", first.len() as u64);
        }
        report
    }
}

/// Hash of the abstract state: model contents x tier of each key.
fn state_hash(env: &Env, model: &Model) -> u64 {
    let mut h = 0x5EED_u64;
    for (k, g) in &model.map {
        h = mix(h, g.ts);
        h = mix(h, g.expiry);
        h = mix(h, g.value.len() as u64);
        h = mix(h, k.len() as u64 ^ (k[0] as u64) << 8);
        if let Some(vk) = env.st().verif_key(k) {
            let tier = (vk.resident as u64) | (vk.cached as u64) << 1 | ((vk.sector != 0) as u64) << 2;
            h = mix(h, tier);
        }
    }
    h
}

fn run_once(
    sim: &Arc<Sim>,
    sc: &Scenario,
    store_cfg: &StoreCfg,
    report: &mut BodyReport,
    tag: &str,
) -> Vec<(String, Res)> {
    let mut results: Vec<(String, Res)> = Vec::new();
    if sc.sim.frozen_wall {
        sim.set_wall(sc.sim.epoch_ns);
    }
    let mut env = Env::new(Arc::clone(sim), store_cfg.clone(), sc.keys.clone(), tag);
    if store_cfg.persistent {
        env.create_device();
    }
    if let Err(e) = env.open() {
        report.fail("open-failed", format!("opening a fresh device failed: {e:?}"));
        env.cleanup();
        return results;
    }
    let mut model = harness::new_model(store_cfg);
    model.cfg.sees_all_calls = true;
    model.cfg.judge_collateral_pins = sc.property == "C12";
    let mut resolver = Resolver {
        keys: &sc.keys,
        writer: 0,
        counter: 0,
        format: store_cfg.format,
    };
    let sweep_every = sc.knob("sweep_every", 0) as usize;
    let frozen = sc.sim.tick_ns == 0;
    let property = sc.property.as_str();
    let mut mutating = 0u64;
    let mut reads_hit = 0u64;
    let mut flush_checks = 0u64;
    let mut ttl_reads = 0u64;
    let mut range_nonempty = 0u64;
    let mut cache_served = 0u64;
    let mut stopped = false;
    let mut oos_episodes = 0u32;

    'ops: for (i, op) in sc.clients[0].iter().enumerate() {
        match op {
            Op::Reopen => {
                if !store_cfg.persistent {
                    continue;
                }
                let risk = checks::capacity_risk(&env);
                if std::env::var("SIMCHECK_DEBUG").is_ok() {
                    eprintln!("reopen #{i}: risk={risk} free runs {:?} unflushed {:?}", env.st().verif_space().runs_by_start, checks::unflushed_extents(&env).iter().map(|(k, b)| (k.len(), *b)).collect::<Vec<_>>());
                }
                env.close();
                let now0 = sim.now_wall();
                if let Err(e) = env.open() {
                    report.fail("reopen-failed", format!("op #{i}: clean reopen failed: {e:?}"));
                    break 'ops;
                }
                let now1 = sim.now_wall();
                let observed = env.all_obs();
                if let Err(f) = model.after_recovery(&observed, now0, now1) {
                    if risk {
                        // the device could not hold everything that was still buffered:
                        // a clean close cannot be expected to persist it
                        report.count("stopped_capacity_at_close", 1);
                        stopped = true;
                        break 'ops;
                    }
                    report.fail(f.rule, format!("op #{i} reopen: {}", f.detail));
                    break 'ops;
                }
                report.count("reopen", 1);
                results.push(("reopen".into(), Res::Unit));
            }
            Op::Settle => {
                if store_cfg.persistent {
                    let quiet = env.settle();
                    report.count(if quiet { "settle_quiet" } else { "settle_busy" }, 1);
                }
                continue;
            }
            Op::Advance { ns } => {
                sim.advance(Duration::from_nanos(*ns));
                report.count("advance", 1);
                continue;
            }
            Op::WallToExpiry { key, delta } => {
                if let Some(g) = model.map.get(&sc.keys[*key % sc.keys.len()]) {
                    if g.expiry != 0 {
                        let target = (g.expiry as i128 + *delta as i128).clamp(1, u64::MAX as i128) as u64;
                        sim.set_wall(target);
                        report.count("wall_to_expiry", 1);
                    }
                }
                continue;
            }
            Op::WallJump { ns } => {
                sim.jump_wall(*ns);
                report.count("wall_jump", 1);
                continue;
            }
            _ => {
                let now = sim.now_wall();
                let view = |k: &[u8]| -> Option<Gen> { model.map.get(k).cloned() };
                let Some(call) = harness::resolve_call(op, &mut resolver, &view, now, Some(env.st())) else {
                    continue;
                };
                let bytes_api = matches!(op, Op::Insert { bytes: true, .. } | Op::Get { bytes: true, .. });
                let tier_before = call.key().and_then(|k| env.st().verif_key(k));
                let now0 = sim.now_wall();
                sim.op_begin(call.name());
                let res = harness::exec_call(env.st(), &call, bytes_api);
                sim.op_end();
                let now1 = sim.now_wall();
                let obs = call.key().and_then(|k| env.obs(k));
                let norm = harness::normalise_call(&call);
                if std::env::var("SIMCHECK_DEBUG").is_ok() {
                    eprintln!("op #{i} wall {now0}..{now1}: {} -> {} obs={obs:?}", call.brief(), res.brief());
                }
                report.ops += 1;
                match (&call, &res) {
                    (Call::Insert { value, .. }, Res::Bool(_)) if value.len() >= (1 << 20) => report.count("huge_values_accepted", 1),
                    (Call::Get { .. }, Res::Bytes(v)) if v.len() >= (1 << 20) => report.count("huge_values_read", 1),
                    _ => {}
                }
                report.count(&format!("op.{}", call.name()), 1);
                if let Res::Err(e) = &res {
                    report.count(&format!("err.{e:?}").chars().take(40).collect::<String>(), 1);
                }
                if matches!(call, Call::Flush) && res == Res::Err(crate::model::ErrKind::OutOfSpace) {
                    // Legitimate only if the buffered extents really do not fit. Background
                    // retirements may free space right after the failing call returned, so the
                    // verdict is taken at quiescence: let the workers finish, try once more, and
                    // only a second OutOfSpace with room for everything is spurious.
                    let _ = env.settle();
                    let second = env.st().flush();
                    let verdict = match second {
                        Ok(()) => Ok(()),
                        Err(feoxdb::FeoxError::OutOfSpace) => checks::out_of_space_is_justified(&env),
                        Err(e) => Err(crate::model::Fail { rule: "flush-failed", detail: format!("retrying flush after OutOfSpace failed with {e:?}") }),
                    };
                    match verdict {
                        Ok(()) => {
                            // the application carries on: what follows (deletes, rewrites, flushes,
                            // clean reopens) runs on a device that is or was full - up to three times
                            oos_episodes += 1;
                            report.count("out_of_space_episodes", 1);
                            if oos_episodes < 3 {
                                continue 'ops;
                            }
                            report.count("stopped_out_of_space", 1);
                            stopped = true;
                        }
                        Err(f) => report.fail(f.rule, format!("op #{i}: {}", f.detail)),
                    }
                    break 'ops;
                }
                sim.hash_u64(mix(i as u64, match &res {
                    Res::Err(_) => 1,
                    Res::Bool(b) => 2 + *b as u64,
                    Res::Int(v) => *v as u64,
                    Res::Bytes(b) => b.len() as u64,
                    _ => 7,
                }));
                if let Err(f) = model.step(&norm, &res, obs.as_ref(), now0, now1) {
                    report.fail(f.rule, format!("op #{i}: {}", f.detail));
                    break 'ops;
                }
                match (&call, &res) {
                    (Call::Get { .. }, Res::Bytes(_)) => {
                        reads_hit += 1;
                        if let Some(t) = &tier_before {
                            let tier = if t.resident { "resident" } else if t.cached { "cached" } else { "disk" };
                            report.count(&format!("read_tier.{tier}"), 1);
                            if t.cached && !t.resident {
                                cache_served += 1;
                            }
                            if t.expiry != 0 {
                                ttl_reads += 1;
                            }
                        }
                    }
                    (Call::Get { .. }, Res::Err(crate::model::ErrKind::KeyNotFound)) => {
                        if let Some(t) = &tier_before {
                            if t.expiry != 0 {
                                ttl_reads += 1;
                                report.count("read_expired", 1);
                                if t.expiry + 1 == now0 {
                                    report.count("probe.get_one_past_expiry", 1);
                                }
                            }
                        }
                    }
                    (Call::Range { .. }, Res::Pairs(p)) if !p.is_empty() => range_nonempty += 1,
                    (Call::Cas { .. }, Res::Bool(true)) => {
                        if let Some(t) = &tier_before {
                            if !t.resident {
                                report.count("probe.cas_on_offloaded", 1);
                            }
                        }
                    }
                    (Call::Incr { .. }, Res::Int(_)) => {
                        if let Some(t) = &tier_before {
                            if !t.resident {
                                report.count("probe.incr_on_offloaded", 1);
                            }
                        }
                    }
                    (Call::UpdateTtl { .. }, Res::Unit) => {
                        if let Some(t) = &tier_before {
                            if !t.resident && !t.cached {
                                report.count("probe.ttl_update_deferred", 1);
                            }
                        }
                    }
                    _ => {}
                }
                if let (Some(t), Res::Bytes(_)) = (&tier_before, &res) {
                    if t.expiry != 0 && t.expiry == now0 && frozen {
                        report.count("probe.get_at_exact_expiry", 1);
                    }
                }
                if !matches!(call, Call::Get { .. } | Call::GetSize { .. } | Call::Contains { .. } | Call::GetTtl { .. } | Call::Range { .. }) {
                    mutating += 1;
                }
                results.push((call.brief(), res.clone()));

                // C13: exact accounting after every call
                if let Err(f) = checks::check_accounting(&env, &model) {
                    report.fail(f.rule, format!("after op #{i} {}: {}", call.brief(), f.detail));
                    break 'ops;
                }
                if matches!(call, Call::Flush) && res == Res::Unit && store_cfg.persistent {
                    let quiet = env.st().verif_shard_counts().iter().all(|c| *c == 0)
                        && env.st().verif_retirements_pending() == Some(0);
                    if quiet {
                        if matches!(property, "C10" | "C05" | "C01") || i % 3 == 0 {
                            match checks::check_durable_image(&env, &model, true) {
                                Ok(info) => {
                                    flush_checks += (info.records > 0) as u64;
                                    report.count("image_checks", 1);
                                    report.count(&format!("image_v{}", info.version), 1);
                                    if info.stale_on_disk > 0 {
                                        report.count("probe.stale_duplicates_on_disk_at_flush", 1);
                                    }
                                }
                                Err(f) => {
                                    report.fail(f.rule, format!("at flush (op #{i}): {}", f.detail));
                                    break 'ops;
                                }
                            }
                            match checks::check_partition(&env) {
                                Ok(info) => {
                                    report.count("partition_checks", 1);
                                    report.count("partition_multiblock_extents", info.multi_block as u64);
                                }
                                Err(f) => {
                                    report.fail(f.rule, format!("at flush (op #{i}): {}", f.detail));
                                    break 'ops;
                                }
                            }
                        }
                        if let Err(f) = checks::check_indexes_agree(&env) {
                            report.fail(f.rule, format!("at flush (op #{i}): {}", f.detail));
                            break 'ops;
                        }
                    } else {
                        report.count("flush_not_quiet", 1);
                    }
                }
            }
        }
        if sweep_every != 0 && i % sweep_every == 0 {
            let now = sim.now_wall();
            let r = checks::check_readback(&env, &model, now);
            let moved = sim.now_wall() != now;
            if let Err(f) = r {
                // with a moving clock an expiry may have passed during the sweep
                if !(moved && matches!(f.rule, "readback-error" | "expired-visible" | "range-mismatch")) {
                    report.fail(f.rule, format!("sweep after op #{i}: {}", f.detail));
                    break 'ops;
                }
            }
            report.count("sweeps", 1);
        }
        if i % 4 == 0 {
            report.states.push(state_hash(&env, &model));
        }
    }

    if property == "C13" && report.violation.is_none() && env.store.is_some() && !stopped {
        // everything deleted: usage and length return to zero
        let keys: Vec<Vec<u8>> = model.map.keys().cloned().collect();
        let mut pinned = false;
        for k in &keys {
            match env.st().delete(k) {
                Ok(()) => {
                    model.map.remove(k);
                }
                Err(feoxdb::FeoxError::OlderTimestamp) => pinned = true,
                Err(feoxdb::FeoxError::KeyNotFound) => {
                    model.map.remove(k); // expired in the meantime
                }
                Err(e) => report.fail("delete-failed", format!("emptying the store: delete failed with {e:?}")),
            }
        }
        if !pinned && report.violation.is_none() {
            let (len, mem) = (env.st().len(), env.st().memory_usage());
            // expired-but-unswept keys are still accounted for: only a store without them must read zero
            let leftovers = env.st().verif_hash_keys().len();
            if leftovers == 0 && (len != 0 || mem != 0) {
                report.fail("memory-accounting", format!("after deleting every key len() = {len} and memory_usage() = {mem}, expected 0 and 0"));
            } else if leftovers == 0 {
                report.count("emptied_store_checks", 1);
            }
        }
    }
    if property == "C05" && report.violation.is_none() && env.store.is_some() && !stopped && store_cfg.persistent {
        // a device emptied by deletes offers exactly what a fresh one does: one free run over
        // the whole data area, zero live records, zero bytes in use
        let keys: Vec<Vec<u8>> = model.map.keys().cloned().collect();
        let mut ok = true;
        for k in &keys {
            match env.st().delete(k) {
                Ok(()) => {
                    model.map.remove(k);
                }
                Err(feoxdb::FeoxError::OlderTimestamp) => ok = false, // key pinned at the maximum timestamp
                Err(e) => {
                    report.fail("delete-failed", format!("emptying the device: delete failed with {e:?}"));
                    ok = false;
                }
            }
        }
        if ok && report.violation.is_none() {
            let flushed = env.st().flush();
            let _ = env.settle();
            let flushed = flushed.and_then(|_| env.st().flush());
            match flushed {
                Ok(()) => {
                    let space = env.st().verif_space();
                    let total = env.st().verif_device_size() / 4096;
                    if space.runs_by_start != vec![(16, total - 16)] || env.st().verif_disk_usage() != 0 || env.st().len() != 0 {
                        report.fail(
                            "emptied-device-not-fresh",
                            format!("after deleting every key and flushing, the free pool is {:?} (expected one run 16+{}), disk usage {}, len {}", space.runs_by_start, total - 16, env.st().verif_disk_usage(), env.st().len()),
                        );
                    } else {
                        report.count("emptied_device_checks", 1);
                        if let Err(f) = checks::check_durable_image(&env, &model, true) {
                            report.fail(f.rule, format!("after emptying the device: {}", f.detail));
                        }
                        // behavioural half: the emptied device accepts again what a fresh one does -
                        // one record over (almost) the whole data area, then as many single-block
                        // records as it has blocks (values stay below the 4 MiB limit)
                        let blocks = (total - 16) as usize;
                        if report.violation.is_none() && blocks >= 4 {
                            let big_blocks = blocks.min(900) - 1;
                            let big_key = b"refill:big".to_vec();
                            let big = crate::harness::plain_value(249, 3, 1, big_blocks * 4096 - 600);
                            let step = |what: &str, r: Result<(), feoxdb::FeoxError>, report: &mut BodyReport| {
                                if let Err(e) = r {
                                    report.fail("emptied-device-refuses-refill", format!("a device of {blocks} data blocks, emptied by deletes: {what} failed with {e:?} (a fresh device accepts it)"));
                                }
                            };
                            step(&format!("insert of a {big_blocks}-block record"), env.st().insert(&big_key, &big).map(|_| ()), report);
                            if report.violation.is_none() {
                                step(&format!("flush of a {big_blocks}-block record"), env.st().flush(), report);
                            }
                            if report.violation.is_none() && env.st().get(&big_key).ok().as_deref() != Some(&big[..]) {
                                report.fail("readback-mismatch", "the refill record does not read back".to_string());
                            }
                            if report.violation.is_none() {
                                step("delete of the refill record", env.st().delete(&big_key), report);
                                let _ = env.st().flush();
                                let _ = env.settle();
                                step("flush after deleting the refill record", env.st().flush(), report);
                            }
                            let singles = blocks.min(40);
                            if report.violation.is_none() {
                                for i in 0..singles {
                                    step("insert of a single-block record", env.st().insert(format!("refill:{i:03}").as_bytes(), &crate::harness::plain_value(248, 3, i as u32, 100 + i)).map(|_| ()), report);
                                }
                                if report.violation.is_none() {
                                    step(&format!("flush of {singles} single-block records"), env.st().flush(), report);
                                }
                                for i in 0..singles {
                                    let _ = env.st().delete(format!("refill:{i:03}").as_bytes());
                                }
                                let _ = env.st().flush();
                                if report.violation.is_none() {
                                    report.count("refill_checks", 1);
                                }
                            }
                        }
                    }
                }
                Err(feoxdb::FeoxError::OutOfSpace) => report.count("stopped_out_of_space", 1),
                Err(e) => report.fail("flush-failed", format!("emptying the device: flush failed with {e:?}")),
            }
        }
    }
    if report.violation.is_none() && env.store.is_some() && !stopped {
        let now = sim.now_wall();
        let r = checks::check_readback(&env, &model, now);
        let moved = sim.now_wall() != now;
        if let Err(f) = r {
            if !(moved && matches!(f.rule, "readback-error" | "expired-visible" | "range-mismatch")) {
                report.fail(f.rule, format!("final sweep: {}", f.detail));
            }
        }
        if let Err(f) = checks::check_indexes_agree(&env) {
            report.fail(f.rule, format!("final: {}", f.detail));
        }
    }
    if let Some(disk) = &env.disk {
        report.disk = disk.stats();
    }
    report.count("auto_ts_checked", model.auto_checked);
    report.nontrivial = match property {
        "C10" | "C05" => flush_checks > 0,
        "C11" => ttl_reads > 0,
        "C12" => model.auto_checked > 0,
        "C13" => mutating >= 5,
        "C14" => range_nonempty > 0,
        "C16" => cache_served > 0 || !store_cfg.cache,
        _ => report.ops >= 10 && reads_hit > 0,
    };
    report.extra_hash = mix(report.extra_hash, results.len() as u64);
    env.cleanup();
    let _ = run_seed;
    results
}
