//! `bigrec`: recovery passes that have to retire more than 1024 separate extents, i.e. more than
//! one allocation-journal transaction. The image is synthesised with the independent codec:
//! expired newest generations of keys b_i in one contiguous region, and - interleaved with live
//! keys a_i, so that they do not coalesce - the stale older generations of the same b_i. Recovery
//! must hide every b_i (its newest generation has expired) and stay restartable: a power loss
//! between two of its journal transactions must not bring an older generation of a b_i back.
//! Serves a stage of C04 (and C11's "no older generation reappears").

use std::collections::BTreeMap;
use std::sync::Arc;

use crate::codec;
use crate::disk::DevOp;
use crate::engines::crash::{self, Contents};
use crate::harness::Env;
use crate::model::Gen;
use crate::runner::{BodyReport, Engine};
use crate::scenario::*;
use crate::sched::{Sim, SimConfig, Strategy};
use crate::tape::{mix, Tape};

pub struct BigRecEngine;

const BLOCK: usize = 4096;

impl Engine for BigRecEngine {
    fn name(&self) -> &'static str {
        "bigrec"
    }

    fn nontrivial_rule(&self, _property: &str) -> String {
        "run recovered a synthesised image whose recovery retires > 1024 separate extents and re-recovered >= 1 power-loss image taken inside that recovery; distinct by case hash".into()
    }

    fn generate(&self, property: &str, seed: u64, _tier: &str) -> Scenario {
        let mut c = Tape::fresh(mix(seed, 0xB16C));
        // just above one journal transaction (1024 entries), or above what three journal blocks
        // can hold at all (1531 entries)
        let pairs = if c.chance(1, 2) { 1030 + c.below(160) as i64 } else { 1540 + c.below(200) as i64 };
        let sim = SimConfig {
            strategy: Strategy::Random,
            tick_ns: 0,
            shards: 1,
            workers: 1,
            hash_seed: c.u64(),
            max_steps: 3_000_000,
            ..SimConfig::default()
        };
        // layout decides which side the journal chunks cut: winners below or above the duplicates
        let winners_first = c.chance(1, 2);
        let low = pairs as u64;
        let store = StoreCfg {
            persistent: true,
            format: *c.pick(&[3u32, 3, 2]),
            cache: false,
            ttl: true,
            hash_bits: 8,
            data_blocks: low + 2 * pairs as u64 + 64,
            max_memory: None,
            sweeper: None,
            create_empty_file: false,
            allow_ambiguous: false,
            ring: 0,
        };
        let mut knobs = BTreeMap::new();
        knobs.insert("pairs".to_string(), pairs);
        knobs.insert("winners_first".to_string(), winners_first as i64);
        knobs.insert("tear_unit".to_string(), *c.pick(&[512i64, 4096]));
        knobs.insert("nested_points".to_string(), 3);
        Scenario {
            engine: "bigrec".into(),
            property: property.into(),
            seed,
            sim,
            store,
            keys: Vec::new(),
            clients: vec![Vec::new()],
            faults: Default::default(),
            knobs,
        }
    }

    fn body(&self, sim: &Arc<Sim>, sc: &Scenario) -> BodyReport {
        let mut report = BodyReport::default();
        let mut pick = Tape::fresh(mix(sc.seed, 0xC4A5));
        let pairs = sc.knob("pairs", 1030) as u64;
        let winners_first = sc.knob("winners_first", 1) == 1;
        let version = sc.store.format;
        let mut env = Env::new(Arc::clone(sim), sc.store.clone(), Vec::new(), "bigrec");
        let size = (16 + sc.store.data_blocks as usize) * BLOCK;
        let now = sim.now_wall();
        let mut image = codec::empty_image(version, size, now / 1_000_000_000);
        let expired = now - 10_000_000_000;
        let (winner_base, mixed_base) = if winners_first { (16, 16 + pairs) } else { (16 + 2 * pairs, 16) };
        let mut expected = Contents::new();
        for i in 0..pairs {
            let a = format!("a{i:05}").into_bytes();
            let b = format!("b{i:05}").into_bytes();
            let va = format!("live-{i}").into_bytes();
            // newest generation of b_i: expired
            codec::put_record(&mut image, version, winner_base + i, &b, format!("newest-{i}").as_bytes(), now - 20_000_000_000 + i, expired);
            // live neighbour and the stale older generation of b_i, alternating
            codec::put_record(&mut image, version, mixed_base + 2 * i, &a, &va, now - 40_000_000_000 + i, 0);
            codec::put_record(&mut image, version, mixed_base + 2 * i + 1, &b, format!("older-{i}").as_bytes(), now - 30_000_000_000 + i, 0);
            expected.insert(a, Gen { value: va, ts: now - 40_000_000_000 + i, expiry: 0 });
        }
        // first recovery, undisturbed
        let first = match crash::recover(sim, sc, &mut env, image.clone(), None) {
            Ok(Ok(r)) => r,
            Ok(Err(e)) => {
                report.fail("reopen-failed", format!("the synthesised image cannot be opened: {e:?}"));
                env.cleanup();
                return report;
            }
            Err((rule, detail)) => {
                report.fail(&rule, detail);
                env.cleanup();
                return report;
            }
        };
        report.ops = 1;
        if let Some(diff) = crash::contents_diff(&expected, &first.contents, true, sim.now_wall()) {
            report.fail("expired-newest-generation-shadowed", format!("first recovery of {pairs} expired winners over stale duplicates: {diff}"));
            env.cleanup();
            return report;
        }
        // device calls of that recovery: power is cut around every barrier and at a few writes
        let log = env.disk.as_ref().map(|d| d.log()).unwrap_or_default();
        let writes = log.iter().filter(|e| e.op == DevOp::Write).count() as u64;
        report.count("recovery_device_writes", writes);
        let mut points: Vec<u64> = Vec::new();
        for e in &log {
            if e.op == DevOp::Fsync {
                for p in [e.call.saturating_sub(1), e.call, e.call + 1] {
                    if p < first.device_calls && !points.contains(&p) {
                        points.push(p);
                    }
                }
            }
        }
        for _ in 0..4 {
            if first.device_calls > 0 {
                let p = pick.below(first.device_calls as u32) as u64;
                if !points.contains(&p) {
                    points.push(p);
                }
            }
        }
        report.count("recovery_barriers", log.iter().filter(|e| e.op == DevOp::Fsync).count() as u64);
        let r1 = first.contents;
        for p in points {
            if let Err((rule, detail)) = crash::nested_crash(sim, sc, &mut env, &image, p, &r1, "synthesised image", &mut report, &mut pick, 2) {
                report.fail(&rule, detail);
                break;
            }
        }
        report.nontrivial = report.counters.get("nested_images_recovered").copied().unwrap_or(0) > 0;
        report.extra_hash = mix(pairs, winners_first as u64);
        if let Some(d) = &env.disk {
            report.disk = d.stats();
        }
        env.close();
        env.cleanup();
        report
    }
}
