//! `admit`: the memory admission of every creating or growing write, driven directly (hook H11).
//! The store calls `reserve_memory` under a hash-index entry guard, where a simulated thread must
//! not be parked - so inside ordinary calls the window between reading the usage counter and
//! updating it holds no seam. Here 3-5 simulated threads call the same function on its own
//! (`verif_reserve_memory`), declared "unguarded", and the seam after the counter is read becomes a
//! scheduling point. Serves C13 (the limit is never exceeded, the accounting stays exact).

use std::collections::BTreeMap;
use std::sync::atomic::{AtomicUsize, Ordering};
use std::sync::{Arc, Mutex};

use feoxdb::FeoxStore;

use crate::disk::FaultPlan;
use crate::runner::{BodyReport, Engine};
use crate::scenario::*;
use crate::sched::{Sim, SimConfig, Strategy};
use crate::tape::{mix, Tape};

pub struct AdmitEngine;

impl Engine for AdmitEngine {
    fn name(&self) -> &'static str {
        "admit"
    }

    fn nontrivial_rule(&self, _property: &str) -> String {
        "run had >= 1 reservation refused and >= 2 admitted while several threads were inside the admission code; distinct = distinct hash of (amounts, interleaving)".into()
    }

    fn generate(&self, property: &str, seed: u64, _tier: &str) -> Scenario {
        let mut c = Tape::fresh(mix(seed, 0xC0F6));
        let mut w = Tape::fresh(mix(seed, 0x3017));
        let threads = 3 + c.below(3) as usize;
        let unit = 100 + c.below(900) as i64;
        // room for 2-4 units (+ slack below one unit)
        let room = 2 + c.below(3) as i64;
        let limit = unit * room + c.below(unit as u32) as i64;
        let strategy = match c.below(5) {
            0 | 1 => Strategy::Random,
            2 => Strategy::Sticky(*c.pick(&[100u32, 300, 500])),
            3 => Strategy::Pct(1 + c.below(3)),
            _ => Strategy::Starve(c.below(6)),
        };
        let sim = SimConfig { strategy, tick_ns: 0, hash_seed: c.u64(), ..SimConfig::default() };
        // per thread: a list of (amount in permille of the unit, release afterwards?) carried as Insert/Delete ops
        let mut clients = Vec::new();
        for _ in 0..threads {
            let n = 1 + w.below(4) as usize;
            let mut ops = Vec::new();
            for _ in 0..n {
                let permille = *w.pick(&[1000usize, 1000, 1000, 500, 250, 1500]);
                ops.push(Op::Insert { key: 0, val: Val { len: permille, kind: ValKind::Plain }, ts: Ts::Auto, ttl: 0, bytes: false });
                if w.chance(1, 3) {
                    ops.push(Op::Delete { key: 0, ts: Ts::Auto });
                }
            }
            clients.push(ops);
        }
        Scenario {
            engine: "admit".into(),
            property: property.into(),
            seed,
            sim,
            store: StoreCfg { max_memory: Some(limit as usize), hash_bits: 2, ..StoreCfg::default() },
            keys: vec![b"k".to_vec()],
            clients,
            faults: FaultPlan::default(),
            knobs: BTreeMap::from([("unit".to_string(), unit)]),
        }
    }

    fn body(&self, sim: &Arc<Sim>, sc: &Scenario) -> BodyReport {
        let mut report = BodyReport::default();
        let limit = sc.store.max_memory.unwrap_or(usize::MAX);
        let unit = sc.knob("unit", 100) as usize;
        let store = match FeoxStore::builder().hash_bits(2).max_memory(limit).build() {
            Ok(s) => Arc::new(s),
            Err(e) => {
                report.fail("open-failed", format!("{e:?}"));
                return report;
            }
        };
        let held = Arc::new(AtomicUsize::new(0));
        let peak = Arc::new(AtomicUsize::new(0));
        let stats: Arc<Mutex<(u64, u64)>> = Arc::new(Mutex::new((0, 0)));
        {
            let (store_m, peak_m) = (Arc::clone(&store), Arc::clone(&peak));
            sim.set_monitor(Some(Box::new(move |_| {
                let now = store_m.memory_usage();
                peak_m.fetch_max(now, Ordering::Relaxed);
                (now > limit).then(|| format!("memory_usage() = {now} while reservations are being admitted against a limit of {limit}"))
            })));
        }
        let mut handles = Vec::new();
        for ops in sc.clients.iter() {
            let (store2, ops2, held2, stats2) = (Arc::clone(&store), ops.clone(), Arc::clone(&held), Arc::clone(&stats));
            feoxdb::verif::thread::name_next_spawn("client");
            handles.push(feoxdb::verif::thread::spawn(move || {
                feoxdb::verif::set_unguarded(true);
                let mut mine: Vec<usize> = Vec::new();
                for op in &ops2 {
                    match op {
                        Op::Insert { val, .. } => {
                            let amount = (unit * val.len / 1000).max(1);
                            if store2.verif_reserve_memory(amount) {
                                held2.fetch_add(amount, Ordering::SeqCst);
                                mine.push(amount);
                                stats2.lock().unwrap().0 += 1;
                            } else {
                                stats2.lock().unwrap().1 += 1;
                            }
                        }
                        _ => {
                            if let Some(amount) = mine.pop() {
                                held2.fetch_sub(amount, Ordering::SeqCst);
                                store2.verif_release_memory(amount);
                            }
                        }
                    }
                }
                feoxdb::verif::set_unguarded(false);
            }));
        }
        for h in handles {
            let _ = h.join();
        }
        sim.set_monitor(None);
        for (rule, detail) in sim.take_violations() {
            let rule = if rule == "step-monitor" { "memory-limit-exceeded".to_string() } else { rule };
            report.fail(&rule, detail);
        }
        let (admitted, refused) = *stats.lock().unwrap();
        let usage = store.memory_usage();
        if usage != held.load(Ordering::SeqCst) {
            report.fail("memory-accounting", format!("memory_usage() = {usage} at quiescence but the admitted and not yet released reservations add up to {}", held.load(Ordering::SeqCst)));
        }
        if usage > limit {
            report.fail("memory-limit-exceeded", format!("memory_usage() = {usage} at quiescence; limit {limit}"));
        }
        report.count("reservations_admitted", admitted);
        report.count("reservations_refused", refused);
        report.count("peak_permille_of_limit", (peak.load(Ordering::Relaxed) * 1000 / limit.max(1)) as u64);
        report.ops = admitted + refused;
        report.nontrivial = refused >= 1 && admitted >= 2;
        report.extra_hash = mix(admitted, refused);
        report
    }
}
