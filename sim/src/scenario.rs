//! Structured scenario (what a replay file contains besides the raw sched/fault tapes):
//! store configuration, key pool, per-client operation lists, fault plan.

use serde::{Deserialize, Serialize};

use crate::disk::FaultPlan;
use crate::sched::SimConfig;
use crate::tape::Tape;

#[derive(Clone, Debug, Serialize, Deserialize)]
pub struct SweeperCfg {
    pub interval_ms: u64,
    pub sample_size: usize,
}

#[derive(Clone, Debug, Serialize, Deserialize)]
pub struct StoreCfg {
    pub persistent: bool,
    /// on-disk format the device is created with (1, 2 or 3)
    pub format: u32,
    pub cache: bool,
    pub ttl: bool,
    pub hash_bits: u32,
    /// data blocks after the 16 reserved ones
    pub data_blocks: u64,
    pub max_memory: Option<usize>,
    pub sweeper: Option<SweeperCfg>,
    /// create the device as a zero-length file (store sizes it) instead of a zero-filled one
    pub create_empty_file: bool,
    pub allow_ambiguous: bool,
    /// 0: the store's synchronous write path; 1: batch writes go through the simulated io_uring;
    /// 2: simulated io_uring with O_DIRECT behaviour (aligned buffers, alignment enforced)
    #[serde(default)]
    pub ring: u8,
}

/// Ring mode of a scenario, drawn from a tape of its own so that every other choice of the
/// generators stays what it was before the simulated ring existed.
pub fn gen_ring(seed: u64) -> u8 {
    let mut t = crate::tape::Tape::fresh(crate::tape::mix(seed, 0x0121_96));
    match t.below(8) {
        0 | 1 => 1,
        2 => 2,
        _ => 0,
    }
}

impl Default for StoreCfg {
    fn default() -> Self {
        StoreCfg {
            persistent: false,
            format: 3,
            cache: false,
            ttl: false,
            hash_bits: 4,
            data_blocks: 64,
            max_memory: None,
            sweeper: None,
            create_empty_file: false,
            allow_ambiguous: false,
            ring: 0,
        }
    }
}

#[derive(Clone, Debug, Serialize, Deserialize, PartialEq, Eq)]
pub enum Ts {
    Auto,
    /// `Some(0)`: documented to mean "automatic"
    Zero,
    Abs(u64),
    /// current timestamp of the key (0 if absent) plus delta
    RelCur(i64),
    /// wall clock plus delta
    RelNow(i64),
    /// u64::MAX - k
    MaxMinus(u64),
}

#[derive(Clone, Debug, Serialize, Deserialize, PartialEq, Eq)]
pub enum ValKind {
    /// self-describing pseudo-random bytes
    Plain,
    /// 8-byte little-endian counter
    Counter(i64),
    /// small JSON object {"k":<key id>,"n":<counter>,"pad":"..."} of roughly `len` bytes
    Json,
    /// multi-block value whose continuation blocks are byte-exact record heads / retirement
    /// markers for the sectors they are predicted to land on
    Forged,
}

#[derive(Clone, Debug, Serialize, Deserialize, PartialEq, Eq)]
pub struct Val {
    pub len: usize,
    pub kind: ValKind,
}

#[derive(Clone, Debug, Serialize, Deserialize, PartialEq, Eq)]
pub enum Expect {
    /// the value the model currently holds (absent key: arbitrary bytes)
    Current,
    /// a value that is not the current one
    Other,
}

#[derive(Clone, Debug, Serialize, Deserialize, PartialEq, Eq)]
pub enum Patch {
    /// replace /n with the op counter
    ReplaceN,
    /// add /extra
    AddField,
    /// remove /pad
    RemovePad,
    /// test /k (fails on mismatch) then replace
    TestWrong,
    /// syntactically invalid patch document
    Garbage,
    /// add and remove the same field: the patched document equals the input
    NoOp,
}

#[derive(Clone, Debug, Serialize, Deserialize, PartialEq, Eq)]
pub enum Bound {
    Empty,
    Key(usize),
    /// key bytes with the last byte incremented / a byte appended
    After(usize),
    Before(usize),
    Raw(Vec<u8>),
    Max,
}

#[derive(Clone, Debug, Serialize, Deserialize, PartialEq, Eq)]
pub enum Op {
    Insert { key: usize, val: Val, ts: Ts, ttl: u64, bytes: bool },
    Get { key: usize, bytes: bool },
    GetSize { key: usize },
    Contains { key: usize },
    Delete { key: usize, ts: Ts },
    Cas { key: usize, expect: Expect, val: Val, ts: Ts, ttl: u64 },
    Incr { key: usize, delta: i64, ts: Ts, ttl: u64 },
    InsertIfAbsent { key: usize, val: Val },
    JsonPatch { key: usize, patch: Patch, ts: Ts },
    UpdateTtl { key: usize, ttl: u64 },
    Persist { key: usize },
    GetTtl { key: usize },
    Range { start: Bound, end: Bound, limit: usize },
    Flush,
    /// drop the handle cleanly and open the device again
    Reopen,
    /// let background threads run until buffers and retirement queue are empty
    Settle,
    /// sleep this many virtual nanoseconds (timers fire)
    Advance { ns: u64 },
    /// set the wall clock to the expiry of `key` plus delta (no-op if it has none)
    WallToExpiry { key: usize, delta: i64 },
    /// move the wall clock without touching timers
    WallJump { ns: i64 },
    /// invalid-argument probes: empty key, oversized key, empty value, oversized value
    BadInsert { which: u8 },
    /// (concurrent engines) poll - one scheduling point per look - until the named seam has been
    /// passed `hits` times in this run, at most `max_polls` looks
    WaitSite { site: String, hits: u64, max_polls: u64 },
}

#[derive(Clone, Debug, Serialize, Deserialize)]
pub struct Scenario {
    pub engine: String,
    pub property: String,
    pub seed: u64,
    pub sim: SimConfig,
    pub store: StoreCfg,
    pub keys: Vec<Vec<u8>>,
    /// clients[0] runs on the root thread in sequential engines
    pub clients: Vec<Vec<Op>>,
    pub faults: FaultPlan,
    /// engine-specific integer knobs
    pub knobs: std::collections::BTreeMap<String, i64>,
}

#[derive(Clone, Debug, Serialize, Deserialize)]
pub struct ReplayFile {
    pub version: u32,
    pub scenario: Scenario,
    pub sched: Tape,
    pub fault: Tape,
    /// the oracle rule that failed when this file was written
    pub rule: String,
    pub detail: String,
}

pub const REPLAY_VERSION: u32 = 1;

impl Scenario {
    pub fn knob(&self, name: &str, default: i64) -> i64 {
        self.knobs.get(name).copied().unwrap_or(default)
    }
    pub fn op_count(&self) -> usize {
        self.clients.iter().map(|c| c.len()).sum()
    }
}

// ------------------------------------------------------------------------------------
// Generation helpers shared by the engines

/// Key pool with shared prefixes and extreme bytes. `max_len` bounds the longest key.
pub fn gen_keys(t: &mut Tape, n: usize, max_len: usize) -> Vec<Vec<u8>> {
    let stems: [&[u8]; 6] = [b"k", b"key:", b"user:00", b"\x00", b"\xff\xff", b"a/b/"];
    let mut keys: Vec<Vec<u8>> = Vec::new();
    while keys.len() < n {
        let mut k = t.pick(&stems).to_vec();
        match t.below(8) {
            0 => {}
            1 => k.push(0),
            2 => k.push(0xff),
            3 => k.extend_from_slice(format!("{}", t.below(4)).as_bytes()),
            4 => k.extend_from_slice(&[b'0' + t.below(10) as u8, b'0' + t.below(10) as u8]),
            5 => {
                let len = 1 + t.below(40) as usize;
                k.extend((0..len).map(|i| b'a' + (i % 26) as u8));
            }
            6 => {
                // long key: near the recoverable maximum or a few hundred bytes
                let len = if t.chance(1, 3) {
                    max_len.saturating_sub(t.below(3) as usize)
                } else {
                    100 + t.below(400) as usize
                };
                let len = len.min(max_len).max(1);
                k.resize(len, b'L');
                let tag = keys.len() as u8;
                let last = k.len() - 1;
                k[last] = tag;
            }
            _ => k.extend_from_slice(&[t.below(256) as u8]),
        }
        if k.is_empty() || k.len() > max_len {
            continue;
        }
        if !keys.contains(&k) {
            keys.push(k);
        }
    }
    keys
}

/// Value-length classes: tiny, typical, just below/at/above block boundaries, multi-block.
pub fn gen_len(t: &mut Tape, max_blocks: usize) -> usize {
    let b = 4096usize;
    match t.below(12) {
        0 => 1,
        1 => 2 + t.below(14) as usize,
        2 | 3 => 16 + t.below(200) as usize,
        4 => 1000 + t.below(2000) as usize,
        5 => b - 64 + t.below(128) as usize, // straddles the first block boundary given the header
        6 => b - 40 + t.below(24) as usize,
        7 => b + t.below(64) as usize,
        8 if max_blocks >= 2 => 2 * b - 64 + t.below(128) as usize,
        9 if max_blocks >= 3 => 3 * b - 64 + t.below(128) as usize,
        10 if max_blocks >= 4 => b * (2 + t.below(max_blocks as u32 - 2) as usize) + t.below(b as u32) as usize,
        _ => 8 + t.below(100) as usize,
    }
}

pub fn gen_ts(t: &mut Tape, explicit_weight: u32) -> Ts {
    if !t.chance(explicit_weight, 100) {
        return if t.chance(1, 20) { Ts::Zero } else { Ts::Auto };
    }
    match t.below(10) {
        0 | 1 | 2 => Ts::RelCur(1 + t.below(1000) as i64),
        3 => Ts::RelCur(0),
        4 => Ts::RelCur(-(1 + t.below(1000) as i64)),
        5 => Ts::RelNow(t.below(2_000_000_000) as i64 - 1_000_000_000),
        6 => Ts::RelNow(1_000_000_000 * (1 + t.below(100) as i64)),
        7 => Ts::Abs(1 + t.below(1_000_000) as u64),
        8 => Ts::RelNow(0),
        _ => Ts::RelCur(1),
    }
}
