//! Parent process of a check: distributes runs to worker processes, aggregates evidence,
//! minimises and confirms violations, applies the known-findings list.

use std::collections::{BTreeMap, BTreeSet};
use std::process::{Command, Stdio};
use std::sync::Arc;
use std::time::{Duration, Instant};

use serde::Deserialize;
use serde_json::json;

use crate::engines;
use crate::runner::{self, Outcome, Verdict};
use crate::scenario::{Op, ReplayFile, Val, ValKind};
use crate::sched::Sim;
use crate::tape::{self, Tape};

pub const HANG_SECS: u64 = 90;

#[derive(Clone, Debug)]
pub struct Stage {
    pub engine: &'static str,
    /// property label handed to the engine's generator (selects its profile)
    pub profile: String,
    pub runs_quick: u64,
    pub runs_thorough: u64,
}

#[derive(Clone, Debug)]
pub struct Plan {
    pub stages: Vec<Stage>,
    pub level: &'static str,
    pub quick_cap_secs: u64,
    pub thorough_cap_secs: u64,
    pub stubs: Vec<&'static str>,
    pub real: Vec<&'static str>,
}

pub fn verif_root() -> String {
    std::env::var("VERIF_ROOT").unwrap_or_else(|_| {
        let exe = std::env::current_exe().unwrap();
        // <root>/sim/target[-x]/release/simcheck
        exe.ancestors()
            .nth(4)
            .map(|p| p.to_string_lossy().into_owned())
            .unwrap_or_else(|| "/verif".into())
    })
}

pub fn workers() -> usize {
    std::env::var("VERIF_WORKERS")
        .ok()
        .and_then(|s| s.parse().ok())
        .unwrap_or_else(|| {
            std::thread::available_parallelism()
                .map(|n| n.get())
                .unwrap_or(8)
                .min(16)
        })
}

struct WorkerResult {
    outcomes: Vec<Outcome>,
    crashes: Vec<(u64, String)>,
}

/// Run `count` runs of (engine profile) starting at `first`, spread over worker processes.
fn run_stage(
    engine: &str,
    profile: &str,
    tier: &str,
    top: u64,
    first: u64,
    count: u64,
    deadline: Instant,
    scratch: &str,
    replay_dir: &str,
) -> WorkerResult {
    let n = workers() as u64;
    let exe = std::env::current_exe().unwrap();
    let per = count.div_ceil(n);
    let deadline_ms = std::time::SystemTime::now()
        .duration_since(std::time::UNIX_EPOCH)
        .unwrap()
        .as_millis()
        + deadline.saturating_duration_since(Instant::now()).as_millis();
    struct Slot {
        next: u64,
        end: u64,
        out: String,
        child: Option<std::process::Child>,
        respawns: u32,
    }
    let mut slots: Vec<Slot> = (0..n)
        .map(|w| Slot {
            next: first + w * per,
            end: (first + (w + 1) * per).min(first + count),
            out: format!("{scratch}/{engine}-{profile}-{first}-w{w}.jsonl"),
            child: None,
            respawns: 0,
        })
        .filter(|s| s.next < s.end)
        .collect();
    let mut crashes = Vec::new();
    let spawn = |s: &mut Slot| {
        let child = Command::new(&exe)
            .args([
                "worker",
                engine,
                profile,
                tier,
                &top.to_string(),
                &s.next.to_string(),
                &(s.end - s.next).to_string(),
                &deadline_ms.to_string(),
                &s.out,
                replay_dir,
            ])
            .stdout(Stdio::null())
            .stderr(Stdio::null())
            .spawn()
            .expect("spawn worker");
        s.child = Some(child);
    };
    for s in slots.iter_mut() {
        spawn(s);
    }
    loop {
        let mut alive = false;
        for s in slots.iter_mut() {
            let Some(child) = s.child.as_mut() else { continue };
            match child.try_wait() {
                Ok(None) => alive = true,
                Ok(Some(status)) => {
                    s.child = None;
                    let code = status.code();
                    if code == Some(0) {
                        continue;
                    }
                    // find the last run that began
                    let text = std::fs::read_to_string(&s.out).unwrap_or_default();
                    let last_begin = text
                        .lines()
                        .rev()
                        .find_map(|l| l.strip_prefix("{\"begin\":").and_then(|r| r.trim_end_matches('}').parse::<u64>().ok()));
                    let Some(run) = last_begin else { continue };
                    let fatal_recorded = matches!(code, Some(c) if c == runner::EXIT_FATAL_VIOLATION || c == runner::EXIT_FATAL_INCONCLUSIVE);
                    if !fatal_recorded {
                        let why = match code {
                            Some(c) if c == runner::EXIT_HANG => "hang (no progress in wall-clock time)".to_string(),
                            Some(c) => format!("worker exited with status {c}"),
                            None => format!("worker killed by a signal ({status})"),
                        };
                        crashes.push((run, why));
                    }
                    s.next = run + 1;
                    s.respawns += 1;
                    if s.next < s.end && s.respawns < 200 && Instant::now() < deadline {
                        spawn(s);
                        alive = true;
                    }
                }
                Err(_) => {
                    s.child = None;
                }
            }
        }
        if !alive {
            break;
        }
        std::thread::sleep(Duration::from_millis(20));
    }
    let mut outcomes = Vec::new();
    for s in &slots {
        let text = std::fs::read_to_string(&s.out).unwrap_or_default();
        for line in text.lines() {
            if line.starts_with("{\"begin\"") {
                continue;
            }
            if let Ok(o) = serde_json::from_str::<Outcome>(line) {
                outcomes.push(o);
            }
        }
        let _ = std::fs::remove_file(&s.out);
    }
    WorkerResult { outcomes, crashes }
}

// ------------------------------------------------------------------------------------
// executing a replay file in a fresh process

#[derive(Debug, Clone)]
pub struct ExecResult {
    pub rule: Option<String>,
    pub detail: String,
    pub code: Option<i32>,
    pub hash: u64,
}

pub fn exec_replay(path: &str, timeout: Duration) -> ExecResult {
    let exe = std::env::current_exe().unwrap();
    let err_path = format!("{path}.stderr");
    let err_file = std::fs::File::create(&err_path).ok();
    let mut child = Command::new(&exe)
        .args(["exec", path])
        .stdout(Stdio::piped())
        .stderr(err_file.map(Stdio::from).unwrap_or_else(Stdio::null))
        .spawn()
        .expect("spawn exec");
    let start = Instant::now();
    // drain stdout in a thread so that a chatty child cannot block on a full pipe
    let mut so = child.stdout.take();
    let reader = std::thread::spawn(move || {
        let mut out = String::new();
        if let Some(so) = so.as_mut() {
            use std::io::Read;
            let _ = so.read_to_string(&mut out);
        }
        out
    });
    let status = loop {
        match child.try_wait() {
            Ok(Some(st)) => break Some(st),
            Ok(None) => {
                if start.elapsed() > timeout {
                    let _ = child.kill();
                    let _ = child.wait();
                    break None;
                }
                std::thread::sleep(Duration::from_millis(5));
            }
            Err(_) => break None,
        }
    };
    let out = reader.join().unwrap_or_default();
    let stderr_head: String = std::fs::read_to_string(&err_path)
        .unwrap_or_default()
        .lines()
        .filter(|l| !l.starts_with("feox:"))
        .take(40)
        .collect::<Vec<_>>()
        .join("\n");
    let _ = std::fs::remove_file(&err_path);
    let outcome = out
        .lines()
        .rev()
        .find_map(|l| serde_json::from_str::<Outcome>(l).ok());
    let code = status.and_then(|s| s.code());
    // a replay file of the fine-grained tier answers with its own verdict line
    if let Some(v) = out.lines().rev().find_map(|l| serde_json::from_str::<serde_json::Value>(l).ok().filter(|v| v["fine"] == true)) {
        let ok = v["ok"].as_bool().unwrap_or(false);
        return ExecResult {
            rule: if ok { None } else { Some(v["rule"].as_str().unwrap_or("crash").to_string()) },
            detail: v["detail"].as_str().unwrap_or("").to_string(),
            code,
            hash: 0,
        };
    }
    match outcome {
        Some(o) => match o.verdict {
            Verdict::Violation { rule, detail } => ExecResult { rule: Some(rule), detail, code, hash: o.sim.log_hash },
            _ => ExecResult { rule: None, detail: String::new(), code, hash: o.sim.log_hash },
        },
        None => {
            let rule = match (status, code) {
                (None, _) => Some("hang".to_string()),
                (Some(_), Some(c)) if c == runner::EXIT_HANG => Some("hang".to_string()),
                (Some(_), Some(0)) => None,
                (Some(_), _) => Some("crash".to_string()),
            };
            ExecResult { rule, detail: format!("process ended with {status:?}\n{stderr_head}"), code, hash: 0 }
        }
    }
}

fn write_file(path: &str, file: &ReplayFile) {
    if let Some(parent) = std::path::Path::new(path).parent() {
        let _ = std::fs::create_dir_all(parent);
    }
    std::fs::write(path, serde_json::to_vec(file).unwrap()).unwrap();
}

fn simplify_val(v: &Val) -> Option<Val> {
    match v.kind {
        ValKind::Plain if v.len > 16 => Some(Val { len: 16, kind: ValKind::Plain }),
        ValKind::Json if v.len > 40 => Some(Val { len: 40, kind: ValKind::Json }),
        _ => None,
    }
}

/// Shrink a failing replay file while the same rule keeps failing. Bounded.
pub fn minimise(file: &ReplayFile, rule: &str, scratch: &str, budget: usize, wall: Duration) -> (ReplayFile, usize) {
    let start = Instant::now();
    let mut best = file.clone();
    let mut used = 0usize;
    let tmp = format!("{scratch}/shrink-{}.json", std::process::id());
    let mut still_fails = |cand: &ReplayFile, used: &mut usize| -> bool {
        if *used >= budget || start.elapsed() > wall {
            return false;
        }
        *used += 1;
        write_file(&tmp, cand);
        let r = exec_replay(&tmp, Duration::from_secs(HANG_SECS + 30));
        r.rule.as_deref() == Some(rule)
    };
    // 1. zero the schedule tape (keep current thread), then truncate
    for keep in [0usize, best.sched.data.len() / 4, best.sched.data.len() / 2] {
        if keep >= best.sched.data.len() {
            continue;
        }
        let mut cand = best.clone();
        cand.sched = Tape::replay(cand.sched.data[..keep].to_vec());
        if still_fails(&cand, &mut used) {
            best = cand;
            break;
        }
    }
    // 2. drop whole clients (keep client 0)
    let mut c = best.scenario.clients.len();
    while c > 1 {
        c -= 1;
        let mut cand = best.clone();
        cand.scenario.clients.remove(c);
        if still_fails(&cand, &mut used) {
            best = cand;
        }
    }
    // 3. ddmin on each client's operations
    for ci in 0..best.scenario.clients.len() {
        let mut chunk = (best.scenario.clients[ci].len() / 2).max(1);
        while chunk >= 1 {
            let mut i = 0;
            let mut progressed = false;
            while i < best.scenario.clients[ci].len() {
                let mut cand = best.clone();
                let end = (i + chunk).min(cand.scenario.clients[ci].len());
                cand.scenario.clients[ci].drain(i..end);
                if still_fails(&cand, &mut used) {
                    best = cand;
                    progressed = true;
                } else {
                    i += chunk;
                }
                if used >= budget || start.elapsed() > wall {
                    break;
                }
            }
            if chunk == 1 && !progressed {
                break;
            }
            chunk = if chunk == 1 { if progressed { 1 } else { 0 } } else { chunk / 2 };
            if chunk == 0 || used >= budget || start.elapsed() > wall {
                break;
            }
        }
    }
    // 4. simplify values (not for the concurrent engine, whose oracle identifies generations by
    // their unique value lengths)
    for ci in 0..if best.scenario.engine == "conc" { 0 } else { best.scenario.clients.len() } {
        for oi in 0..best.scenario.clients[ci].len() {
            let mut cand = best.clone();
            let changed = match &mut cand.scenario.clients[ci][oi] {
                Op::Insert { val, .. } | Op::Cas { val, .. } | Op::InsertIfAbsent { val, .. } => match simplify_val(val) {
                    Some(v) => {
                        *val = v;
                        true
                    }
                    None => false,
                },
                _ => false,
            };
            if changed && still_fails(&cand, &mut used) {
                best = cand;
            }
        }
    }
    // 5. fault plan: drop explicit faults one by one, drop random faults
    let mut fi = best.scenario.faults.at_call.len();
    while fi > 0 {
        fi -= 1;
        let mut cand = best.clone();
        cand.scenario.faults.at_call.remove(fi);
        if still_fails(&cand, &mut used) {
            best = cand;
        }
    }
    if best.scenario.faults.random_per_mille > 0 {
        let mut cand = best.clone();
        cand.scenario.faults.random_per_mille = 0;
        if still_fails(&cand, &mut used) {
            best = cand;
        }
    }
    // 6. fault tape to zeros
    if !best.fault.data.is_empty() {
        let mut cand = best.clone();
        cand.fault = Tape::replay(Vec::new());
        if still_fails(&cand, &mut used) {
            best = cand;
        }
    }
    let _ = std::fs::remove_file(&tmp);
    (best, used)
}

// ------------------------------------------------------------------------------------
// known findings

#[derive(Deserialize, Debug, Clone)]
pub struct Finding {
    pub status: String,
    pub property: String,
    pub rule: String,
    /// every listed fragment must occur in the violation detail
    #[serde(default)]
    pub witness: Vec<String>,
    #[serde(default)]
    pub what: String,
    #[serde(default)]
    pub commit: String,
}

pub fn load_findings() -> Vec<Finding> {
    let path = format!("{}/known_findings.json", verif_root());
    std::fs::read(&path)
        .ok()
        .and_then(|d| serde_json::from_slice::<Vec<Finding>>(&d).ok())
        .unwrap_or_default()
}

fn matches_known(findings: &[Finding], property: &str, rule: &str, detail: &str) -> Option<Finding> {
    findings
        .iter()
        .find(|f| {
            f.status == "known"
                && f.property == property
                && f.rule == rule
                && f.witness.iter().all(|w| detail.contains(w.as_str()))
        })
        .cloned()
}

// ------------------------------------------------------------------------------------
// the check itself

pub fn check(property: &str, tier: &str, top: u64) -> i32 {
    let tier = if let Ok(t) = std::env::var("VERIF_TIER") {
        if t == "quick" || t == "thorough" { t } else { tier.to_string() }
    } else {
        tier.to_string()
    };
    let tier = tier.as_str();
    if tier != "quick" && tier != "thorough" {
        eprintln!("tier must be quick or thorough");
        return 2;
    }
    let Some(plan) = engines::plan(property) else {
        eprintln!("property {property} has no check (see MANIFEST.json not_applicable)");
        return 2;
    };
    let root = verif_root();
    let scratch = format!("/dev/shm/simcheck-parent-{}", std::process::id());
    let scratch = if std::fs::create_dir_all(&scratch).is_ok() { scratch } else {
        let s = format!("{}/simcheck-parent-{}", std::env::temp_dir().display(), std::process::id());
        let _ = std::fs::create_dir_all(&s);
        s
    };
    let replay_dir = format!("{root}/replays");
    let _ = std::fs::create_dir_all(&replay_dir);
    let started = Instant::now();
    let cap = Duration::from_secs(if tier == "quick" { plan.quick_cap_secs } else { plan.thorough_cap_secs });
    let scale: f64 = std::env::var("VERIF_SCALE").ok().and_then(|s| s.parse().ok()).unwrap_or(1.0);

    let mut all: Vec<((&'static str, String), Outcome)> = Vec::new();
    let mut crashes: Vec<((&'static str, String), u64, String)> = Vec::new();
    let mut stage_info = Vec::new();
    let n_stages = plan.stages.len() as u32;
    let only_fine = std::env::var("VERIF_ONLY_FINE").is_ok(); // tuning aid: skip the seam-level stages
    for (si, stage) in plan.stages.iter().enumerate() {
        if only_fine {
            break;
        }
        let runs = ((if tier == "quick" { stage.runs_quick } else { stage.runs_thorough }) as f64 * scale) as u64;
        let runs = runs.max(1);
        // every stage gets an equal share of what is left of the wall-clock cap
        let left = cap.saturating_sub(started.elapsed());
        let share = left / (n_stages - si as u32);
        let t0 = Instant::now();
        let r = run_stage(stage.engine, &stage.profile, tier, top, 0, runs, Instant::now() + share, &scratch, &replay_dir);
        stage_info.push(json!({
            "engine": stage.engine, "profile": stage.profile, "planned_runs": runs,
            "completed_runs": r.outcomes.len(), "wall_s": t0.elapsed().as_secs_f64()
        }));
        for o in r.outcomes {
            all.push(((stage.engine, stage.profile.clone()), o));
        }
        for (run, why) in r.crashes {
            crashes.push(((stage.engine, stage.profile.clone()), run, why));
        }
    }

    // ---- fine-grained tier (Miri as the scheduler), for the properties that have one
    let fine_budget = Duration::from_secs(if tier == "quick" { 75 } else { 1200 });
    let fine_out = if std::env::var("VERIF_NO_FINE").is_ok() { None } else { crate::fine::run_stage(&root, property, tier, top, workers(), &replay_dir, fine_budget) };

    // ---- violations
    let findings = load_findings();
    let mut reported: Vec<String> = Vec::new();
    let mut known_lines: Vec<String> = Vec::new();
    let mut harness_errors: Vec<String> = Vec::new();
    let mut fine_info = serde_json::Value::Null;
    let mut fine_runs = 0u64;
    let mut fine_violations = 0u64;
    if let Some(f) = fine_out {
        fine_info = f.info;
        fine_runs = f.runs;
        harness_errors.extend(f.harness_errors);
        for (rule, path, detail) in f.violations {
            fine_violations += 1;
            if let Some(k) = matches_known(&findings, property, &rule, &detail) {
                known_lines.push(format!("KNOWN-FINDING: property={property} {} [{rule}]", k.what));
            } else {
                println!("VIOLATION property={property} replay={path}");
                println!("  rule: {rule} (fine-grained tier)");
                for l in detail.lines().take(12) {
                    println!("  {l}");
                }
                println!("  replay: {root}/check {property} --replay {path}");
                reported.push(path);
            }
        }
    }

    // ---- regression corpus: replay files of earlier failures (fixed defects and corrected
    // false alarms) are re-executed on every check; each has to come out clean
    let mut corpus_replayed = 0u64;
    let mut corpus: Vec<String> = std::fs::read_dir(format!("{root}/regressions"))
        .map(|d| d.filter_map(|e| e.ok()).map(|e| e.file_name().to_string_lossy().into_owned()).collect())
        .unwrap_or_default();
    corpus.retain(|n| n.starts_with(&format!("{property}-")) && n.ends_with(".json"));
    corpus.sort();
    for name in &corpus {
        let committed = format!("{root}/regressions/{name}");
        let copy = format!("{scratch}/corpus-{name}");
        if std::fs::copy(&committed, &copy).is_err() {
            harness_errors.push(format!("cannot stage regression replay {committed}"));
            continue;
        }
        let r = exec_replay(&copy, Duration::from_secs(HANG_SECS + 30));
        corpus_replayed += 1;
        if let Some(rule) = r.rule.as_deref() {
            if let Some(k) = matches_known(&findings, property, rule, &r.detail) {
                known_lines.push(format!("KNOWN-FINDING: property={property} {} [{rule}]", k.what));
            } else {
                println!("VIOLATION property={property} replay={committed}");
                println!("  rule: {rule} (regression corpus)");
                for l in r.detail.lines().take(12) {
                    println!("  {l}");
                }
                reported.push(committed);
            }
        }
    }
    let mut by_rule: BTreeMap<String, Vec<&Outcome>> = BTreeMap::new();
    for (_, o) in &all {
        if let Verdict::Violation { rule, .. } = &o.verdict {
            by_rule.entry(rule.clone()).or_default().push(o);
        }
    }
    let mut violations_total = 0u64;
    for (rule, list) in &by_rule {
        violations_total += list.len() as u64;
        // prefer the smallest failing run
        let mut list: Vec<&&Outcome> = list.iter().collect();
        list.sort_by_key(|o| o.ops);
        let mut confirmed = false;
        for o in list.iter().take(3) {
            let Some(path) = &o.replay else { continue };
            let Ok(data) = std::fs::read(path) else { continue };
            let Ok(file) = serde_json::from_slice::<ReplayFile>(&data) else { continue };
            let budget = if tier == "quick" { 120 } else { 300 };
            let (small, used) = minimise(&file, rule, &scratch, budget, Duration::from_secs(120));
            let min_path = format!("{replay_dir}/{property}-{rule}-{:016x}.min.json", file.scenario.seed);
            write_file(&min_path, &small);
            let again = exec_replay(&min_path, Duration::from_secs(HANG_SECS + 30));
            let (final_path, final_detail) = if again.rule.as_deref() == Some(rule.as_str()) {
                let mut f = small.clone();
                f.detail = again.detail.clone();
                write_file(&min_path, &f);
                (min_path.clone(), again.detail.clone())
            } else {
                // fall back to the unminimised file
                let orig = exec_replay(path, Duration::from_secs(HANG_SECS + 30));
                if orig.rule.as_deref() == Some(rule.as_str()) {
                    (path.clone(), orig.detail.clone())
                } else {
                    harness_errors.push(format!(
                        "violation {rule} of run seed {} did not reproduce in a fresh process (got {:?})",
                        o.seed, orig.rule
                    ));
                    continue;
                }
            };
            confirmed = true;
            if let Some(k) = matches_known(&findings, property, rule, &final_detail) {
                known_lines.push(format!("KNOWN-FINDING: property={property} {} [{}]", k.what, rule));
            } else {
                println!("VIOLATION property={property} replay={final_path}");
                println!("  rule: {rule}");
                for l in final_detail.lines().take(12) {
                    println!("  {l}");
                }
                println!("  minimised with {used} re-executions to {} operations; replay: {root}/check {property} --replay {final_path}", small.scenario.op_count());
                reported.push(final_path);
            }
            break;
        }
        if !confirmed && harness_errors.is_empty() {
            harness_errors.push(format!("violation {rule} has no replay file"));
        }
    }
    let mut workers_lost = 0u64;
    // worker crashes / hangs: rebuild the replay file from the seed and confirm
    let mut crash_reports = 0usize;
    let mut crashes_not_reexecuted = 0usize;
    for ((engine_name, profile), run, why) in &crashes {
        // re-executing a hang costs its whole watchdog period: after three confirmed reports the
        // remaining lost workers are counted, not replayed (their replay files are the same kind)
        if crash_reports >= 3 {
            crashes_not_reexecuted += 1;
            continue;
        }
        let engine = engines::engine_by_name(engine_name);
        let seed = tape::run_seed(top, &format!("{engine_name}:{profile}"), *run);
        let sc = engines::generate(&*engine, profile, seed, tier);
        let path = format!("{replay_dir}/{property}-crash-{seed:016x}.json");
        let file = ReplayFile {
            version: crate::scenario::REPLAY_VERSION,
            scenario: sc,
            // fresh tapes are a pure function of the seed: re-generate them by running with recording
            sched: Tape::fresh(tape::mix(seed, 0x5C4ED)),
            fault: Tape::fresh(tape::mix(seed, 0xFA017)),
            rule: "crash".into(),
            detail: why.clone(),
        };
        // a replay file needs recorded tapes: mark it so that exec regenerates from the seed
        let mut file = file;
        file.rule = format!("crash-seeded:{seed}");
        write_file(&path, &file);
        let r = exec_replay(&path, Duration::from_secs(HANG_SECS + 30));
        match r.rule.as_deref() {
            Some(rule @ ("hang" | "crash")) | Some(rule @ "panic") => {
                violations_total += 1;
                let detail = format!("{why}; reproduced as {rule}\n{}", r.detail);
                if let Some(k) = matches_known(&findings, property, rule, &detail) {
                    known_lines.push(format!("KNOWN-FINDING: property={property} {} [{rule}]", k.what));
                } else if property == "C18" || property == "C20" || property == "C17" || rule != "hang" {
                    println!("VIOLATION property={property} replay={path}");
                    println!("  rule: {rule}");
                    for l in detail.lines().take(30) {
                        println!("  {l}");
                    }
                    reported.push(path.clone());
                    crash_reports += 1;
                } else {
                    harness_errors.push(format!("run {run} of {profile}: {detail} (a real hang is decided by the C18 check)"));
                }
            }
            // the worker was killed from outside (SIGKILL: the kernel's OOM killer, an operator)
            // and the run it was executing comes out clean when executed again on its own: the
            // run is accounted for, the loss of the worker is not a property of the code
            None if why.contains("signal: 9") => {
                workers_lost += 1;
                eprintln!("note: run {run} of {profile}: {why}; the run was executed again on its own and is clean");
            }
            other => harness_errors.push(format!("run {run} of {profile}: {why}; not reproduced (got {other:?})")),
        }
    }
    if crashes_not_reexecuted > 0 {
        println!("  ({crashes_not_reexecuted} further runs that lost their worker were not re-executed after three confirmed reports)");
    }
    for l in &known_lines {
        println!("{l}");
    }

    // ---- evidence
    let evaluations = all.len() as u64 + fine_runs;
    let mut distinct: BTreeSet<u64> = BTreeSet::new();
    let mut states: BTreeSet<u64> = BTreeSet::new();
    let mut interleavings: BTreeSet<u64> = BTreeSet::new();
    let mut counters: BTreeMap<String, u64> = BTreeMap::new();
    let mut site_hits: BTreeMap<String, u64> = BTreeMap::new();
    let mut fail_hits: BTreeMap<String, u64> = BTreeMap::new();
    let mut probes: BTreeMap<String, u64> = BTreeMap::new();
    let mut faults: BTreeMap<String, u64> = BTreeMap::new();
    let (mut steps, mut switches, mut vns, mut ops, mut inconclusive, mut jumps) = (0u64, 0u64, 0u128, 0u64, 0u64, 0u64);
    let (mut dev_r, mut dev_w, mut dev_f) = (0u64, 0u64, 0u64);
    let mut ring = [0u64; 4];
    let mut ring_runs = 0u64;
    for (_, o) in &all {
        if o.nontrivial {
            distinct.insert(o.case_hash);
        }
        states.extend(o.states.iter().copied());
        interleavings.insert(o.sim.interleave_hash);
        for (k, v) in &o.counters {
            *counters.entry(k.clone()).or_insert(0) += v;
        }
        for (k, v) in &o.sim.site_hits {
            *site_hits.entry(k.clone()).or_insert(0) += v;
        }
        for (k, v) in &o.sim.fail_hits {
            *fail_hits.entry(k.clone()).or_insert(0) += v;
        }
        for (k, v) in &o.sim.probes {
            *probes.entry(k.clone()).or_insert(0) += v;
        }
        for (k, v) in &o.disk.faults_fired {
            *faults.entry(k.clone()).or_insert(0) += v;
        }
        steps += o.sim.steps;
        switches += o.sim.switches;
        jumps += o.sim.time_jumps;
        vns += o.sim.virtual_ns as u128;
        ops += o.ops;
        dev_r += o.disk.reads;
        dev_w += o.disk.writes;
        dev_f += o.disk.fsyncs;
        for i in 0..4 {
            ring[i] += o.disk.ring[i];
        }
        ring_runs += (o.disk.ring[0] > 0) as u64;
        if matches!(o.verdict, Verdict::Inconclusive { .. }) {
            inconclusive += 1;
        }
    }
    let wall = started.elapsed().as_secs_f64();
    // samples: first few runs re-generated (scenario summary + outcome)
    let mut samples = Vec::new();
    // one or two samples per stage
    let mut sample_runs: Vec<&((&'static str, String), Outcome)> = Vec::new();
    for stage in &plan.stages {
        sample_runs.extend(
            all.iter()
                .filter(|((e, p), o)| *e == stage.engine && *p == stage.profile && o.nontrivial)
                .take(if plan.stages.len() > 1 { 1 } else { 3 }),
        );
    }
    for ((engine_name, profile), o) in sample_runs {
        let engine = engines::engine_by_name(engine_name);
        let sc = engines::generate(&*engine, profile, o.seed, tier);
        let ops_preview: Vec<String> = sc
            .clients
            .iter()
            .enumerate()
            .flat_map(|(c, ops)| ops.iter().take(12).map(move |op| format!("c{c}: {op:?}")))
            .take(24)
            .collect();
        samples.push(json!({
            "run_seed": o.seed, "engine": sc.engine, "store": sc.store, "strategy": format!("{:?}", sc.sim.strategy),
            "tick_ns": sc.sim.tick_ns, "shards": sc.sim.shards, "workers": sc.sim.workers,
            "keys": sc.keys.iter().map(|k| String::from_utf8_lossy(&k[..k.len().min(24)]).into_owned()).collect::<Vec<_>>(),
            "first_ops": ops_preview, "ops_total": sc.op_count(), "faults": sc.faults,
            "verdict": format!("{:?}", o.verdict).chars().take(200).collect::<String>(),
            "steps": o.sim.steps, "virtual_ms": o.sim.virtual_ns / 1_000_000, "counters": o.counters,
        }));
    }
    if samples.is_empty() {
        samples.push(json!({"note": "no non-trivial run completed"}));
    }
    let rule_text = plan
        .stages
        .iter()
        .map(|s| format!("[{}:{}] {}", s.engine, s.profile, engines::engine_by_name(s.engine).nontrivial_rule(&s.profile)))
        .collect::<Vec<_>>()
        .join(" | ");
    let evidence = json!({
        "property_id": property,
        "tier": tier,
        "seed": top,
        "level": plan.level,
        "wall_s": wall,
        "violations": reported.len(),
        "coverage": {
            "evaluations": evaluations,
            "distinct_nontrivial": distinct.len(),
            "rule": format!("cases are simulated runs generated from VERIF_SEED by splitmix(seed, property, run#); {rule_text}"),
            "samples": samples,
            "exhaustive": false,
            "stages": stage_info,
            "fine_tier": fine_info,
            "fine_tier_runs": fine_runs,
            "runs_per_hour": if wall > 0.0 { (evaluations as f64 / wall * 3600.0) as u64 } else { 0 },
            "seeds_per_hour": if wall > 0.0 { (evaluations as f64 / wall * 3600.0) as u64 } else { 0 },
            "simulated_seconds": (vns / 1_000_000_000) as u64,
            "scheduler_steps": steps,
            "context_switches": switches,
            "idle_time_jumps": jumps,
            "api_calls": ops,
            "distinct_interleavings": interleavings.len(),
            "distinct_interleavings_measure": "distinct hashes of the (thread, site) sequence at context switches",
            "distinct_abstract_states": states.len(),
            "distinct_abstract_states_measure": "hash of (model contents x per-key tier vector) sampled every few operations",
            "inconclusive_runs": inconclusive,
            "violating_runs": violations_total + fine_violations,
            "known_findings_seen": known_lines.len(),
            "regression_replays_executed": corpus_replayed,
            "workers_killed_from_outside_runs_reexecuted": workers_lost,
            "harness_errors": harness_errors,
            "fault_kinds_fired": faults,
            "buggify_fired": fail_hits,
            "device_calls": {"read": dev_r, "write": dev_w, "fsync": dev_f},
            "simulated_io_uring": {"runs_with_ring_traffic": ring_runs, "enter_calls": ring[0], "writes_through_ring": ring[1], "entries_orphaned_by_closed_ring": ring[2], "late_kernel_reads_of_orphans": ring[3]},
            "yield_site_hits": site_hits,
            "probes": probes,
            "counters": counters,
            "workers": workers(),
            "components_real": plan.real,
            "components_stubbed": plan.stubs,
        },
        "assumptions": [
            "threads switch only at seams (shimmed locks, channels, sleeps, joins, simulated I/O, named yield points); races without a seam inside the window and weak-memory effects are not explored",
            "device writes are atomic at 512 bytes; fsync does not lie; no misdirected writes",
            "io_uring and O_DIRECT paths of DiskIO are not exercised (simulated device uses the synchronous fallback path)",
            "a clean batch is evidence over the sampled seeds, not proof"
        ],
    });
    let ev_dir = format!("{root}/evidence");
    let _ = std::fs::create_dir_all(&ev_dir);
    // tuning aids (a slice of the stages, scaled budgets) must not replace the record of a real run
    let tuning = only_fine || std::env::var("VERIF_SCALE").is_ok();
    let ev_name = if tuning { format!("{ev_dir}/{property}.tuning.json") } else { format!("{ev_dir}/{property}.json") };
    let _ = std::fs::write(ev_name, serde_json::to_vec_pretty(&evidence).unwrap());
    let _ = std::fs::remove_dir_all(&scratch);

    println!(
        "{property} {tier}: {evaluations} runs ({} distinct non-trivial), {ops} calls, {} simulated s, {} violations, {} known, {:.1}s wall",
        distinct.len(),
        vns / 1_000_000_000,
        reported.len(),
        known_lines.len(),
        wall
    );
    if !reported.is_empty() {
        return 1;
    }
    if !harness_errors.is_empty() {
        for e in &harness_errors {
            eprintln!("HARNESS-ERROR: {e}");
        }
        return 2;
    }
    if evaluations == 0 {
        eprintln!("HARNESS-ERROR: no run completed");
        return 2;
    }
    0
}

// ------------------------------------------------------------------------------------
// determinism proof

pub fn determinism(property: &str, runs: u64, _top: u64) -> i32 {
    if let Some(family) = property.strip_prefix("fine:") {
        // every seed twice, at two degrees of parallelism (16 and 3 interpreters at a time)
        let root = verif_root();
        let collect = |par: usize| -> BTreeMap<u64, String> {
            let next = std::sync::atomic::AtomicU64::new(0);
            let out = std::sync::Mutex::new(BTreeMap::new());
            std::thread::scope(|scope| {
                for _ in 0..par {
                    scope.spawn(|| loop {
                        let i = next.fetch_add(1, std::sync::atomic::Ordering::SeqCst);
                        if i >= runs {
                            break;
                        }
                        let seed = tape::run_seed(_top, &format!("fine:{family}"), i) >> 16;
                        let r = crate::fine::run_one(&root, family, seed, 0, seed, 2);
                        out.lock().unwrap().insert(seed, format!("{} {} {} {:x} {:?} {:?}", r.ok, r.rule, r.yields, r.trace, r.counters, r.harness_error));
                    });
                }
            });
            out.into_inner().unwrap()
        };
        let _ = crate::fine::run_one(&root, family, 0, 0, 0, 1);
        let a = collect(16);
        let b = collect(3);
        let mut bad = 0;
        for (seed, h) in &a {
            if b.get(seed) != Some(h) {
                bad += 1;
                if bad < 10 {
                    println!("seed {seed}: {h} vs {:?}", b.get(seed));
                }
            }
        }
        println!("determinism {property}: {} seeds x 2 executions (16 and 3 interpreters in parallel), {bad} mismatches", a.len());
        return if bad == 0 && a.len() as u64 == runs { 0 } else { 2 };
    }
    let exe = std::env::current_exe().unwrap();
    let collect = |nworkers: u64| -> BTreeMap<u64, String> {
        let per = runs.div_ceil(nworkers);
        let children: Vec<_> = (0..nworkers)
            .map(|w| {
                Command::new(&exe)
                    .args(["hashes", property, &(w * per).to_string(), &per.min(runs.saturating_sub(w * per)).to_string()])
                    .stdout(Stdio::piped())
                    .stderr(Stdio::null())
                    .spawn()
                    .unwrap()
            })
            .collect();
        let mut map = BTreeMap::new();
        for c in children {
            let out = c.wait_with_output().unwrap();
            for line in String::from_utf8_lossy(&out.stdout).lines() {
                let mut it = line.splitn(2, ' ');
                if let (Some(run), Some(rest)) = (it.next(), it.next()) {
                    if let Ok(run) = run.parse::<u64>() {
                        map.insert(run, rest.to_string());
                    }
                }
            }
        }
        map
    };
    let a = collect(16);
    let b = collect(4);
    let c = collect(1.max(runs / 2000).min(2));
    let mut bad = 0;
    for (run, h) in &a {
        for other in [&b, &c] {
            if let Some(h2) = other.get(run) {
                if h2 != h {
                    bad += 1;
                    if bad < 10 {
                        println!("run {run}: {h} vs {h2}");
                    }
                }
            } else {
                bad += 1;
                if bad < 10 {
                    println!("run {run}: missing in another split");
                }
            }
        }
    }
    println!("determinism {property}: {} runs x 3 process splits, {bad} mismatches", a.len());
    if bad == 0 && a.len() as u64 == runs { 0 } else { 2 }
}

// ------------------------------------------------------------------------------------
// human-readable replay

pub fn print_human_trace(file: &ReplayFile, outcome: &Outcome, sim: &Arc<Sim>) {
    println!("---- replay of {} / {} (run seed {})", file.scenario.property, file.scenario.engine, file.scenario.seed);
    println!("store: {:?}", file.scenario.store);
    println!("sim: strategy={:?} tick_ns={} shards={} workers={} frozen_wall={}", file.scenario.sim.strategy, file.scenario.sim.tick_ns, file.scenario.sim.shards, file.scenario.sim.workers, file.scenario.sim.frozen_wall);
    println!("faults: {:?}", file.scenario.faults);
    println!("knobs: {:?}", file.scenario.knobs);
    for (i, k) in file.scenario.keys.iter().enumerate() {
        println!("key[{i}] = {:?} ({} bytes)", String::from_utf8_lossy(&k[..k.len().min(32)]), k.len());
    }
    for (c, ops) in file.scenario.clients.iter().enumerate() {
        for (i, op) in ops.iter().enumerate() {
            println!("client {c} op #{i}: {op:?}");
        }
    }
    let trace = sim.take_trace();
    let shown = trace.len().min(400);
    println!("---- schedule (last {shown} of {} steps): step, thread that runs next, scheduling point it continues from", trace.len());
    for t in &trace[trace.len() - shown..] {
        println!("{:>7} t{} {:<12} {}", t.step, t.thread, t.name, t.site);
    }
    for d in sim.all_devices() {
        let log = d.log();
        let shown = log.len().min(200);
        println!("---- device {} (last {shown} of {} calls)", d.label, log.len());
        for e in &log[log.len() - shown..] {
            println!("  ev{:>6} call{:>5} t{:?} {:?} off={} len={} fault={:?} ok={}", e.event, e.call, e.thread, e.op, e.offset, e.len, e.fault, e.ok);
        }
    }
    println!("---- verdict: {:?}", outcome.verdict);
}
