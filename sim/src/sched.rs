//! The simulator's controller: baton scheduler over real OS threads, virtual clock,
//! seeds, device registry, buggify decisions and step monitors.
//!
//! Exactly one registered thread runs at any time (the baton holder). Every hand-over is
//! decided here from the `sched` tape, so a run is a pure function of its tapes.

use std::cell::Cell;
use std::collections::{BTreeMap, HashMap};
use std::fs::File;
use std::os::unix::fs::MetadataExt;
use std::sync::atomic::{AtomicBool, AtomicU64, Ordering};
use std::sync::{Arc, Condvar, Mutex, RwLock};
use std::time::Duration;

use feoxdb::verif::{Controller, SimDevice};
use serde::{Deserialize, Serialize};

use crate::disk::SimDisk;
use crate::tape::{mix, LogHash, Tape};

thread_local! {
    static SIM_ID: Cell<Option<usize>> = const { Cell::new(None) };
}

#[derive(Clone, Copy, Debug, Serialize, Deserialize, PartialEq, Eq)]
pub enum Strategy {
    /// uniform over enabled threads at every step
    Random,
    /// keep the current thread with probability 1 - p/1000
    Sticky(u32),
    /// random priorities with `d` priority change points
    Pct(u32),
    /// thread `victim` (index among registered threads, modulo) runs only when nothing else can,
    /// or with probability 1/64
    Starve(u32),
}

/// Scheduling steps taken by this process, for the wall-clock watchdog: a run that is slow
/// (a loaded machine, a recovery of thousands of extents) still moves; a hung one does not.
pub static PROGRESS: std::sync::atomic::AtomicU64 = std::sync::atomic::AtomicU64::new(0);

#[derive(Clone, Debug, Serialize, Deserialize)]
pub struct SimConfig {
    pub strategy: Strategy,
    /// nanoseconds added per scheduling step, times 0..=2 (0 = clock moves only by jumps)
    pub tick_ns: u64,
    pub epoch_ns: u64,
    pub max_steps: u64,
    pub shards: usize,
    pub workers: usize,
    pub hash_seed: u64,
    /// buggify: site -> probability per mille
    pub buggify: BTreeMap<String, u32>,
    /// a call still running this many virtual ns after it began is a liveness violation
    pub liveness_limit_ns: u64,
    /// expected run length in steps (PCT change points are placed inside it)
    pub pct_horizon: u32,
    /// the wall clock moves only by explicit jumps (timers still follow virtual time)
    #[serde(default)]
    pub frozen_wall: bool,
    /// with Strategy::Starve: when non-empty the victim is held back only while it is parked at
    /// one of these sites, and only until `hold_steps` steps of other threads have passed; at
    /// every other point it is scheduled like any other thread
    #[serde(default)]
    pub hold_sites: Vec<String>,
    #[serde(default)]
    pub hold_steps: u64,
    /// the hold also lasts while every other thread is asleep (virtual time then jumps to their
    /// timers); without it the victim runs as soon as nobody else is runnable
    #[serde(default)]
    pub hold_through_idle: bool,
    /// buggify sites that fire at most this many times per run (a fault that heals)
    #[serde(default)]
    pub buggify_limits: BTreeMap<String, u32>,
}

impl Default for SimConfig {
    fn default() -> Self {
        SimConfig {
            strategy: Strategy::Random,
            tick_ns: 1_000,
            epoch_ns: 1_700_000_000_000_000_000,
            max_steps: 400_000,
            shards: 2,
            workers: 1,
            hash_seed: 1,
            buggify: BTreeMap::new(),
            liveness_limit_ns: 120_000_000_000,
            pct_horizon: 2_000,
            frozen_wall: false,
            hold_sites: Vec::new(),
            hold_steps: 0,
            hold_through_idle: false,
            buggify_limits: BTreeMap::new(),
        }
    }
}

/// `Strategy::Starve(HOLD_ANY)` with `hold_sites`: every thread is held at those sites.
pub const HOLD_ANY: u32 = 999;

#[derive(Clone, Debug, Serialize, Deserialize, PartialEq, Eq)]
pub enum FatalKind {
    Deadlock,
    Liveness,
    Budget,
    Panic,
}

#[derive(Clone, Debug, Serialize, Deserialize)]
pub struct Fatal {
    pub kind: FatalKind,
    pub detail: String,
    pub sched: Tape,
    pub fault: Tape,
    pub steps: u64,
    pub virtual_ns: u64,
    /// last scheduling steps before the fatal condition (only when tracing)
    #[serde(default)]
    pub trace_tail: Vec<(u64, usize, String, String)>,
}

struct PredPtr(*const (dyn Fn() -> bool + 'static));
unsafe impl Send for PredPtr {}

enum State {
    Runnable,
    Blocked {
        pred: PredPtr,
        deadline: Option<u64>,
        site: &'static str,
    },
    Finished,
}

struct ThreadInfo {
    name: &'static str,
    state: State,
    slot: Arc<Slot>,
    woke_ready: bool,
    priority: u32,
    op_deadline: Option<u64>,
    op_label: &'static str,
    last_site: &'static str,
    /// step at which this thread was last given the baton (weak fairness)
    last_run: u64,
    /// step at which this thread last arrived at a scheduling point
    parked_at: u64,
}

struct Slot {
    cv: Condvar,
    finished: AtomicBool,
    panicked: AtomicBool,
}

#[derive(Clone, Debug, Serialize)]
pub struct TraceStep {
    pub step: u64,
    pub thread: usize,
    pub name: &'static str,
    pub site: &'static str,
    pub now: u64,
}

pub type StepMonitor = Box<dyn Fn(u64) -> Option<String> + Send>;

struct Inner {
    cfg: SimConfig,
    now: u64,
    wall_offset: i64,
    threads: Vec<ThreadInfo>,
    current: usize,
    steps: u64,
    switches: u64,
    time_jumps: u64,
    sched: Tape,
    fault: Tape,
    hash: LogHash,
    interleave: LogHash,
    site_hits: BTreeMap<&'static str, u64>,
    fail_hits: BTreeMap<&'static str, u64>,
    trace: Option<Vec<TraceStep>>,
    pct_points: Vec<u64>,
    next_low_priority: u32,
    violations: Vec<(String, String)>,
    pins: HashMap<u64, (u64, u64, u32)>,
    pin_events: u64,
    monitor: Option<StepMonitor>,
    enforce_liveness: bool,
    probes: BTreeMap<&'static str, u64>,
    watch: Vec<&'static str>,
    watched: Vec<(&'static str, u64)>,
}

pub struct Sim {
    inner: Mutex<Inner>,
    slots: RwLock<Vec<Arc<Slot>>>,
    now_wall: AtomicU64,
    now_mono: AtomicU64,
    event_seq: AtomicU64,
    devices: Mutex<HashMap<(u64, u64), Arc<SimDisk>>>,
    default_devices: AtomicBool,
    default_plan: Mutex<Option<crate::disk::FaultPlan>>,
    fatal_hook: Mutex<Option<Box<dyn Fn(&Fatal) + Send>>>,
    self_ref: Mutex<Option<std::sync::Weak<Sim>>>,
}

#[derive(Clone, Debug, Default, Serialize, Deserialize)]
pub struct SimStats {
    pub steps: u64,
    pub switches: u64,
    pub time_jumps: u64,
    pub virtual_ns: u64,
    pub log_hash: u64,
    pub interleave_hash: u64,
    pub threads: usize,
    pub site_hits: BTreeMap<String, u64>,
    pub fail_hits: BTreeMap<String, u64>,
    pub probes: BTreeMap<String, u64>,
    pub pin_events: u64,
}

impl Sim {
    pub fn new(cfg: SimConfig, sched: Tape, fault: Tape, trace: bool) -> Arc<Sim> {
        let epoch = cfg.epoch_ns;
        let sim = Arc::new(Sim {
            inner: Mutex::new(Inner {
                cfg,
                now: epoch,
                wall_offset: 0,
                threads: Vec::new(),
                current: 0,
                steps: 0,
                switches: 0,
                time_jumps: 0,
                sched,
                fault,
                hash: LogHash::default(),
                interleave: LogHash::default(),
                site_hits: BTreeMap::new(),
                fail_hits: BTreeMap::new(),
                trace: trace.then(Vec::new),
                pct_points: Vec::new(),
                next_low_priority: 1_000_000,
                violations: Vec::new(),
                pins: HashMap::new(),
                pin_events: 0,
                monitor: None,
                enforce_liveness: true,
                probes: BTreeMap::new(),
                watch: Vec::new(),
                watched: Vec::new(),
            }),
            slots: RwLock::new(Vec::new()),
            now_wall: AtomicU64::new(epoch),
            now_mono: AtomicU64::new(epoch),
            event_seq: AtomicU64::new(0),
            devices: Mutex::new(HashMap::new()),
            default_devices: AtomicBool::new(false),
            default_plan: Mutex::new(None),
            fatal_hook: Mutex::new(None),
            self_ref: Mutex::new(None),
        });
        *sim.self_ref.lock().unwrap() = Some(Arc::downgrade(&sim));
        {
            let mut g = sim.inner.lock().unwrap();
            if let Strategy::Pct(d) = g.cfg.strategy {
                let horizon = g.cfg.pct_horizon.max(10) as u64;
                let mut points = Vec::new();
                for _ in 0..d {
                    let p = g.sched.range(1, horizon);
                    points.push(p);
                }
                g.pct_points = points;
            }
        }
        sim
    }

    fn me(&self) -> Arc<Sim> {
        self.self_ref
            .lock()
            .unwrap()
            .as_ref()
            .and_then(|w| w.upgrade())
            .expect("sim alive")
    }

    // ---------------------------------------------------------------- root thread

    /// Register the calling thread as thread 0 and install the controller.
    pub fn enter_root(self: &Arc<Self>) {
        let slot = Arc::new(Slot {
            cv: Condvar::new(),
            finished: AtomicBool::new(false),
            panicked: AtomicBool::new(false),
        });
        {
            let mut g = self.inner.lock().unwrap();
            assert!(g.threads.is_empty());
            let prio = g.sched.next();
            g.threads.push(ThreadInfo {
                name: "root",
                state: State::Runnable,
                slot: Arc::clone(&slot),
                woke_ready: false,
                priority: prio % 1_000_000,
                op_deadline: None,
                op_label: "",
                last_site: "start",
                last_run: 0,
                parked_at: 0,
            });
            g.current = 0;
        }
        self.slots.write().unwrap().push(slot);
        SIM_ID.with(|id| id.set(Some(0)));
        feoxdb::verif::install(self.clone() as Arc<dyn Controller>);
    }

    /// Wait until every other simulated thread has finished, then uninstall.
    pub fn leave_root(self: &Arc<Self>) {
        let this = Arc::clone(self);
        let all_done = move || {
            let slots = this.slots.read().unwrap();
            slots
                .iter()
                .skip(1)
                .all(|s| s.finished.load(Ordering::SeqCst))
        };
        while !all_done() {
            self.block_on("root.wait_all", &all_done, None);
        }
        {
            let mut g = self.inner.lock().unwrap();
            g.threads[0].state = State::Finished;
        }
        feoxdb::verif::uninstall();
        SIM_ID.with(|id| id.set(None));
    }

    pub fn set_fatal_hook(&self, hook: Box<dyn Fn(&Fatal) + Send>) {
        *self.fatal_hook.lock().unwrap() = Some(hook);
    }

    pub fn set_monitor(&self, monitor: Option<StepMonitor>) {
        self.inner.lock().unwrap().monitor = monitor;
    }

    pub fn set_enforce_liveness(&self, on: bool) {
        self.inner.lock().unwrap().enforce_liveness = on;
    }

    // ---------------------------------------------------------------- clock

    pub fn now_mono(&self) -> u64 {
        self.now_mono.load(Ordering::SeqCst)
    }

    pub fn now_wall(&self) -> u64 {
        self.now_wall.load(Ordering::SeqCst)
    }

    fn publish_time(&self, g: &Inner) {
        self.now_mono.store(g.now, Ordering::SeqCst);
        let base = if g.cfg.frozen_wall { g.cfg.epoch_ns } else { g.now };
        let wall = (base as i128 + g.wall_offset as i128).clamp(0, u64::MAX as i128) as u64;
        self.now_wall.store(wall, Ordering::SeqCst);
    }

    /// Move the wall clock (not the timers) by `delta` nanoseconds.
    pub fn jump_wall(&self, delta: i64) {
        let mut g = self.inner.lock().unwrap();
        g.wall_offset = g.wall_offset.saturating_add(delta);
        self.publish_time(&g);
        g.hash.u64(0xC10C);
        g.hash.u64(delta as u64);
    }

    /// Set the wall clock to exactly `target`.
    pub fn set_wall(&self, target: u64) {
        let mut g = self.inner.lock().unwrap();
        let base = if g.cfg.frozen_wall { g.cfg.epoch_ns } else { g.now };
        g.wall_offset =
            (target as i128 - base as i128).clamp(i64::MIN as i128, i64::MAX as i128) as i64;
        self.publish_time(&g);
        g.hash.u64(0xC10D);
        g.hash.u64(target);
    }

    /// Charge virtual time to the running thread (simulated I/O latency).
    pub fn charge(&self, ns: u64) {
        if ns == 0 {
            return;
        }
        let mut g = self.inner.lock().unwrap();
        g.now = g.now.saturating_add(ns);
        self.publish_time(&g);
    }

    pub fn next_event(&self) -> u64 {
        self.event_seq.fetch_add(1, Ordering::SeqCst) + 1
    }

    pub fn current_event(&self) -> u64 {
        self.event_seq.load(Ordering::SeqCst)
    }

    // ---------------------------------------------------------------- client helpers

    pub fn current_thread(&self) -> Option<usize> {
        SIM_ID.with(|id| id.get())
    }

    /// Mark the start of an API call on the calling thread (bounded-liveness watchdog).
    pub fn op_begin(&self, label: &'static str) {
        let Some(me) = self.current_thread() else {
            return;
        };
        let mut g = self.inner.lock().unwrap();
        let limit = g.cfg.liveness_limit_ns;
        let now = g.now;
        g.threads[me].op_deadline = Some(now.saturating_add(limit));
        g.threads[me].op_label = label;
    }

    pub fn op_end(&self) {
        let Some(me) = self.current_thread() else {
            return;
        };
        let mut g = self.inner.lock().unwrap();
        g.threads[me].op_deadline = None;
    }

    pub fn sleep(&self, d: Duration) {
        self.block_on("sim.sleep", &|| false, Some(d));
    }

    pub fn frozen_wall(&self) -> bool {
        self.inner.lock().unwrap().cfg.frozen_wall
    }

    /// Let `d` pass: timers fire, and the wall clock follows even when it is frozen.
    pub fn advance(&self, d: Duration) {
        self.sleep(d);
        if self.frozen_wall() {
            self.jump_wall(d.as_nanos().min(i64::MAX as u128) as i64);
        }
    }

    pub fn hash_u64(&self, v: u64) {
        self.inner.lock().unwrap().hash.u64(v);
    }

    pub fn hash_bytes(&self, b: &[u8]) {
        self.inner.lock().unwrap().hash.bytes(b);
    }

    /// Record the global event number each time one of `sites` is passed.
    pub fn watch_sites(&self, sites: &[&'static str]) {
        let mut g = self.inner.lock().unwrap();
        g.watch = sites.to_vec();
        g.watched.clear();
    }

    /// How often the named seam has been passed so far in this run.
    pub fn site_hits(&self, site: &str) -> u64 {
        self.inner.lock().unwrap().site_hits.iter().find(|(s, _)| **s == site).map(|(_, n)| *n).unwrap_or(0)
    }

    pub fn take_watched(&self) -> Vec<(&'static str, u64)> {
        std::mem::take(&mut self.inner.lock().unwrap().watched)
    }

    pub fn probe(&self, name: &'static str) {
        *self.inner.lock().unwrap().probes.entry(name).or_insert(0) += 1;
    }

    pub fn violation(&self, rule: &str, detail: String) {
        let mut g = self.inner.lock().unwrap();
        if g.violations.len() < 16 {
            g.violations.push((rule.to_string(), detail));
        }
    }

    pub fn take_violations(&self) -> Vec<(String, String)> {
        std::mem::take(&mut self.inner.lock().unwrap().violations)
    }

    /// Switch a cooperative fault point on or off while the run is under way (rate per mille;
    /// 1000 = always, 0 = never).
    pub fn set_buggify(&self, site: &str, rate: u32) {
        let mut g = self.inner.lock().unwrap();
        g.cfg.buggify.insert(site.to_string(), rate);
        g.hash.u64(0xB066);
        g.hash.u64(rate as u64);
    }

    pub fn fault_draw<R>(&self, f: impl FnOnce(&mut Tape) -> R) -> R {
        f(&mut self.inner.lock().unwrap().fault)
    }

    pub fn pinned_extents(&self) -> Vec<(u64, u64)> {
        self.inner
            .lock()
            .unwrap()
            .pins
            .values()
            .map(|(s, m, _)| (*s, *m))
            .collect()
    }

    pub fn stats(&self) -> SimStats {
        let g = self.inner.lock().unwrap();
        SimStats {
            steps: g.steps,
            switches: g.switches,
            time_jumps: g.time_jumps,
            virtual_ns: g.now - g.cfg.epoch_ns,
            log_hash: g.hash.0,
            interleave_hash: g.interleave.0,
            threads: g.threads.len(),
            site_hits: g.site_hits.iter().map(|(k, v)| (k.to_string(), *v)).collect(),
            fail_hits: g.fail_hits.iter().map(|(k, v)| (k.to_string(), *v)).collect(),
            probes: g.probes.iter().map(|(k, v)| (k.to_string(), *v)).collect(),
            pin_events: g.pin_events,
        }
    }

    pub fn take_tapes(&self) -> (Tape, Tape) {
        let mut g = self.inner.lock().unwrap();
        let mut s = std::mem::take(&mut g.sched);
        let mut f = std::mem::take(&mut g.fault);
        s.trim();
        f.trim();
        (s, f)
    }

    pub fn take_trace(&self) -> Vec<TraceStep> {
        self.inner
            .lock()
            .unwrap()
            .trace
            .take()
            .unwrap_or_default()
    }

    // ---------------------------------------------------------------- devices

    pub fn register_device(&self, file: &File, disk: Arc<SimDisk>) {
        let md = file.metadata().expect("device metadata");
        self.devices
            .lock()
            .unwrap()
            .insert((md.dev(), md.ino()), disk);
    }

    pub fn unregister_devices(&self) {
        self.devices.lock().unwrap().clear();
    }

    pub fn set_default_devices(&self, on: bool) {
        self.default_devices.store(on, Ordering::SeqCst);
    }

    /// Fault plan given to devices the simulator creates by itself for unregistered files.
    pub fn set_default_plan(&self, plan: Option<crate::disk::FaultPlan>) {
        *self.default_plan.lock().unwrap() = plan;
    }

    pub fn auto_devices(&self) -> Vec<Arc<SimDisk>> {
        self.devices
            .lock()
            .unwrap()
            .values()
            .filter(|d| d.label == "auto")
            .cloned()
            .collect()
    }

    pub fn device_by_path(&self, path: &str) -> Option<Arc<SimDisk>> {
        let md = std::fs::metadata(path).ok()?;
        self.devices
            .lock()
            .unwrap()
            .get(&(md.dev(), md.ino()))
            .cloned()
    }

    pub fn all_devices(&self) -> Vec<Arc<SimDisk>> {
        self.devices.lock().unwrap().values().cloned().collect()
    }

    // ---------------------------------------------------------------- scheduling core

    fn fatal(&self, g: &mut Inner, kind: FatalKind, detail: String) -> ! {
        let mut waits = String::new();
        for (i, t) in g.threads.iter().enumerate() {
            let st = match &t.state {
                State::Runnable => "runnable".to_string(),
                State::Finished => "finished".to_string(),
                State::Blocked { site, deadline, .. } => {
                    format!("blocked at {site} deadline={deadline:?}")
                }
            };
            waits.push_str(&format!(
                "  thread {i} ({}) {st} last_site={} op={}\n",
                t.name, t.last_site, t.op_label
            ));
        }
        let mut sched = std::mem::take(&mut g.sched);
        let mut fault = std::mem::take(&mut g.fault);
        sched.trim();
        fault.trim();
        let fatal = Fatal {
            kind,
            detail: format!("{detail}\nstep={} now={}\n{waits}", g.steps, g.now),
            sched,
            fault,
            steps: g.steps,
            virtual_ns: g.now - g.cfg.epoch_ns,
            trace_tail: g
                .trace
                .as_ref()
                .map(|t| t[t.len().saturating_sub(400)..].iter().map(|s| (s.step, s.thread, s.name.to_string(), s.site.to_string())).collect())
                .unwrap_or_default(),
        };
        if let Some(hook) = self.fatal_hook.lock().unwrap().as_ref() {
            hook(&fatal);
        }
        eprintln!("simcheck: fatal {:?}: {}", fatal.kind, fatal.detail);
        std::process::exit(12);
    }

    /// Report a fatal condition detected outside the scheduler (e.g. a panic on the root thread).
    pub fn fatal_external(&self, kind: FatalKind, detail: String) -> ! {
        let mut g = self.inner.lock().unwrap();
        self.fatal(&mut g, kind, detail)
    }

    /// Decide who runs next. `me` is the caller (baton holder).
    fn choose(&self, g: &mut Inner, me: usize, site: &'static str) -> usize {
        *g.site_hits.entry(site).or_insert(0) += 1;
        g.threads[me].last_site = site;
        if !g.watch.is_empty() && g.watch.contains(&site) && g.watched.len() < 4096 {
            let ev = self.event_seq.load(Ordering::SeqCst);
            g.watched.push((site, ev));
        }
        let mut enabled: Vec<(usize, bool)> = Vec::with_capacity(g.threads.len());
        // targeted hold (Strategy::Starve with hold_sites): the victim is not schedulable while
        // it is parked at a listed site and the others have not yet taken `hold_steps` steps -
        // unless nothing else can ever run
        g.threads[me].parked_at = g.steps + 1;
        // (Starve(HOLD_ANY): whichever threads are parked at a listed site are held)
        let held: Vec<usize> = match g.cfg.strategy {
            Strategy::Starve(v) if !g.cfg.hold_sites.is_empty() => {
                let candidates: Vec<usize> = if v == HOLD_ANY { (0..g.threads.len()).collect() } else { vec![(v as usize) % g.threads.len()] };
                candidates
                    .into_iter()
                    .filter(|&t| {
                        g.cfg.hold_sites.iter().any(|s| s == g.threads[t].last_site)
                            && (g.steps + 1).saturating_sub(g.threads[t].parked_at) < g.cfg.hold_steps
                    })
                    .collect()
            }
            _ => Vec::new(),
        };
        loop {
            enabled.clear();
            let now = g.now;
            let mut min_deadline: Option<u64> = None;
            for (i, t) in g.threads.iter().enumerate() {
                match &t.state {
                    State::Runnable => enabled.push((i, true)),
                    State::Finished => {}
                    State::Blocked { pred, deadline, .. } => {
                        let ready = unsafe { (*pred.0)() };
                        if ready {
                            enabled.push((i, true));
                        } else if let Some(d) = deadline {
                            if *d <= now {
                                enabled.push((i, false));
                            } else {
                                min_deadline = Some(min_deadline.map_or(*d, |m: u64| m.min(*d)));
                            }
                        }
                    }
                }
            }
            if !held.is_empty() {
                let others = enabled.iter().any(|(i, _)| !held.contains(i));
                if others || (g.cfg.hold_through_idle && min_deadline.is_some()) {
                    enabled.retain(|(i, _)| !held.contains(i));
                }
            }
            if !enabled.is_empty() {
                break;
            }
            match min_deadline {
                Some(d) => {
                    g.now = g.now.max(d);
                    g.time_jumps += 1;
                    self.publish_time(g);
                    self.check_liveness(g);
                }
                None => {
                    self.fatal(
                        g,
                        FatalKind::Deadlock,
                        "no thread can run and no timer is pending".to_string(),
                    );
                }
            }
        }

        g.steps += 1;
        PROGRESS.fetch_add(1, std::sync::atomic::Ordering::Relaxed);
        g.threads[me].parked_at = g.steps;
        if g.steps > g.cfg.max_steps {
            let max = g.cfg.max_steps;
            self.fatal(g, FatalKind::Budget, format!("step budget {max} exhausted"));
        }

        // current thread first, then ascending id: a zero draw keeps the current thread running
        enabled.sort_by_key(|(i, _)| (*i != me, *i));
        let draw = g.sched.next();
        let n = enabled.len() as u32;
        let me_enabled = enabled[0].0 == me;
        let pick = match g.cfg.strategy {
            Strategy::Random => (draw % n) as usize,
            Strategy::Sticky(p) => {
                if me_enabled && n > 1 {
                    if (draw >> 8) % 1000 < p && draw != 0 {
                        1 + ((draw >> 20) % (n - 1)) as usize
                    } else {
                        0
                    }
                } else {
                    (draw % n) as usize
                }
            }
            Strategy::Pct(_) => {
                let step = g.steps;
                if g.pct_points.contains(&step) {
                    g.next_low_priority += 1;
                    let low = g.next_low_priority;
                    g.threads[me].priority = low;
                }
                if draw != 0 || !me_enabled {
                    let mut best = 0usize;
                    for (k, (i, _)) in enabled.iter().enumerate() {
                        if g.threads[*i].priority < g.threads[enabled[best].0].priority {
                            best = k;
                        }
                    }
                    best
                } else {
                    0
                }
            }
            // targeted hold: a held victim was already taken out of `enabled` above; everywhere
            // else it is an ordinary thread
            Strategy::Starve(_) if !g.cfg.hold_sites.is_empty() => (draw % n) as usize,
            Strategy::Starve(v) => {
                let victim = (v as usize) % g.threads.len();
                let others: Vec<usize> = (0..enabled.len())
                    .filter(|k| enabled[*k].0 != victim)
                    .collect();
                if others.is_empty() || (draw >> 24) % 64 == 1 {
                    (draw % n) as usize
                } else {
                    others[(draw % others.len() as u32) as usize]
                }
            }
        };
        // Weak fairness: priority-based and starving strategies must not keep an enabled thread
        // off the processor forever (the properties assume a responsive machine; e.g. a reader
        // that holds an extent pin has to get to finish its read). A thread that has been enabled
        // but not run for FAIRNESS_STEPS steps is run now.
        const FAIRNESS_STEPS: u64 = 2_500;
        let steps_now = g.steps;
        let pick = enabled
            .iter()
            .position(|(i, _)| steps_now.saturating_sub(g.threads[*i].last_run) > FAIRNESS_STEPS)
            .unwrap_or(pick);
        let (next, ready) = enabled[pick];
        g.threads[next].last_run = steps_now;

        let tick = g.cfg.tick_ns * ((draw >> 29) as u64 % 3);
        if tick != 0 {
            g.now = g.now.saturating_add(tick);
            self.publish_time(g);
        }
        self.check_liveness(g);

        if let State::Blocked { .. } = g.threads[next].state {
            g.threads[next].state = State::Runnable;
            g.threads[next].woke_ready = ready;
        }
        g.hash.u64(g.steps ^ ((next as u64) << 48));
        g.hash.str(site);
        if next != me {
            g.switches += 1;
            g.interleave.u64(next as u64);
            g.interleave.str(site);
        }
        if let Some(trace) = g.trace.as_mut() {
            if trace.len() >= 200_000 {
                trace.drain(..100_000);
            }
            {
                // the thread that gets the baton and the point it continues from
                trace.push(TraceStep {
                    step: g.steps,
                    thread: next,
                    name: g.threads[next].name,
                    site: if next == me { site } else { g.threads[next].last_site },
                    now: g.now,
                });
            }
        }
        if let Some(monitor) = g.monitor.as_ref() {
            if let Some(problem) = monitor(g.steps) {
                if g.violations.len() < 16 {
                    g.violations.push(("step-monitor".to_string(), problem));
                }
            }
        }
        next
    }

    fn check_liveness(&self, g: &mut Inner) {
        if !g.enforce_liveness {
            return;
        }
        let now = g.now;
        let stuck = g
            .threads
            .iter()
            .enumerate()
            .find(|(_, t)| t.op_deadline.is_some_and(|d| d < now))
            .map(|(i, t)| (i, t.op_label));
        if let Some((i, label)) = stuck {
            let limit = g.cfg.liveness_limit_ns;
            self.fatal(
                g,
                FatalKind::Liveness,
                format!("call {label} on thread {i} has been running for more than {limit} virtual ns"),
            );
        }
    }

    fn hand_over<'a>(
        &'a self,
        mut g: std::sync::MutexGuard<'a, Inner>,
        me: usize,
        next: usize,
        wait: bool,
    ) -> Option<std::sync::MutexGuard<'a, Inner>> {
        if next == me {
            return Some(g);
        }
        g.current = next;
        g.threads[next].slot.cv.notify_one();
        if !wait {
            return None;
        }
        let slot = Arc::clone(&g.threads[me].slot);
        while g.current != me {
            g = slot.cv.wait(g).unwrap();
        }
        Some(g)
    }
}

impl Controller for Sim {
    fn now_nanos(&self) -> u64 {
        self.now_wall.load(Ordering::SeqCst)
    }

    fn yield_point(&self, site: &'static str) {
        let Some(me) = SIM_ID.with(|id| id.get()) else {
            return;
        };
        let mut g = self.inner.lock().unwrap();
        debug_assert_eq!(g.current, me, "yield from a thread that does not hold the baton");
        let next = self.choose(&mut g, me, site);
        self.hand_over(g, me, next, true);
    }

    fn block_on(
        &self,
        site: &'static str,
        ready: &dyn Fn() -> bool,
        timeout: Option<Duration>,
    ) -> bool {
        let Some(me) = SIM_ID.with(|id| id.get()) else {
            // Not a simulated thread: poll in real time.
            let start = std::time::Instant::now();
            loop {
                if ready() {
                    return true;
                }
                if timeout.is_some_and(|t| start.elapsed() >= t) {
                    return false;
                }
                std::thread::sleep(Duration::from_micros(50));
            }
        };
        let mut g = self.inner.lock().unwrap();
        debug_assert_eq!(g.current, me);
        let deadline = timeout.map(|d| g.now.saturating_add(d.as_nanos().min(u64::MAX as u128) as u64));
        let pred: *const (dyn Fn() -> bool + '_) = ready;
        let pred: *const (dyn Fn() -> bool + 'static) = unsafe { std::mem::transmute(pred) };
        g.threads[me].state = State::Blocked {
            pred: PredPtr(pred),
            deadline,
            site,
        };
        let next = self.choose(&mut g, me, site);
        let g = self.hand_over(g, me, next, true).expect("waited");
        debug_assert!(matches!(g.threads[me].state, State::Runnable));
        g.threads[me].woke_ready
    }

    fn thread_register(&self, name: &'static str) -> u64 {
        let slot = Arc::new(Slot {
            cv: Condvar::new(),
            finished: AtomicBool::new(false),
            panicked: AtomicBool::new(false),
        });
        let id;
        {
            let mut g = self.inner.lock().unwrap();
            id = g.threads.len();
            let steps_now = g.steps;
            let prio = g.sched.next() % 1_000_000;
            g.threads.push(ThreadInfo {
                name,
                state: State::Runnable,
                slot: Arc::clone(&slot),
                woke_ready: false,
                priority: prio,
                op_deadline: None,
                op_label: "",
                last_site: "spawn",
                last_run: steps_now,
                parked_at: steps_now,
            });
            g.hash.u64(0x5AA0 ^ id as u64);
        }
        self.slots.write().unwrap().push(slot);
        id as u64
    }

    fn thread_begin(&self, id: u64) {
        let me = id as usize;
        SIM_ID.with(|c| c.set(Some(me)));
        let mut g = self.inner.lock().unwrap();
        let slot = Arc::clone(&g.threads[me].slot);
        while g.current != me {
            g = slot.cv.wait(g).unwrap();
        }
    }

    fn thread_end(&self, id: u64, panicked: bool) {
        let me = id as usize;
        let mut g = self.inner.lock().unwrap();
        g.threads[me].state = State::Finished;
        g.threads[me].op_deadline = None;
        {
            let slot = &g.threads[me].slot;
            slot.panicked.store(panicked, Ordering::SeqCst);
            slot.finished.store(true, Ordering::SeqCst);
        }
        if panicked && g.violations.len() < 16 {
            let name = g.threads[me].name;
            g.violations
                .push(("panic".to_string(), format!("thread {me} ({name}) panicked")));
        }
        SIM_ID.with(|c| c.set(None));
        let next = self.choose(&mut g, me, "thread.end");
        self.hand_over(g, me, next, false);
    }

    fn thread_finished(&self, id: u64) -> bool {
        self.slots.read().unwrap()[id as usize]
            .finished
            .load(Ordering::SeqCst)
    }

    fn hash_seeds(&self, site: &'static str) -> [u64; 4] {
        let seed = self.inner.lock().unwrap().cfg.hash_seed;
        let mut h = seed;
        for b in site.bytes() {
            h = mix(h, b as u64);
        }
        [mix(h, 1), mix(h, 2), mix(h, 3), mix(h, 4)]
    }

    fn cpus(&self, site: &'static str, real: usize) -> usize {
        let g = self.inner.lock().unwrap();
        match site {
            "write_buffer.shards" => g.cfg.shards.max(1),
            "store.workers" => g.cfg.workers.max(1),
            _ => real,
        }
    }

    fn jitter(&self, _site: &'static str, _value: i64) -> i64 {
        0
    }

    fn rng_seed(&self, site: &'static str) -> u64 {
        let mut g = self.inner.lock().unwrap();
        let draw = g.fault.u64();
        let mut h = g.cfg.hash_seed ^ draw;
        for b in site.bytes() {
            h = mix(h, b as u64);
        }
        h
    }

    fn device_for(&self, file: &File) -> Option<Arc<dyn SimDevice>> {
        let md = file.metadata().ok()?;
        let key = (md.dev(), md.ino());
        let mut devices = self.devices.lock().unwrap();
        if let Some(disk) = devices.get(&key) {
            disk.adopt_if_empty(file);
            return Some(disk.clone() as Arc<dyn SimDevice>);
        }
        if self.default_devices.load(Ordering::SeqCst) {
            let disk = SimDisk::from_file(&self.me(), file, "auto");
            if let Some(plan) = self.default_plan.lock().unwrap().clone() {
                disk.set_plan(plan);
            }
            devices.insert(key, Arc::clone(&disk));
            return Some(disk as Arc<dyn SimDevice>);
        }
        None
    }

    fn fail_at(&self, site: &'static str) -> bool {
        if SIM_ID.with(|id| id.get()).is_none() {
            return false;
        }
        let mut g = self.inner.lock().unwrap();
        let Some(rate) = g.cfg.buggify.get(site).copied() else {
            return false;
        };
        if rate == 0 {
            return false;
        }
        if let Some(limit) = g.cfg.buggify_limits.get(site).copied() {
            if g.fail_hits.get(site).copied().unwrap_or(0) >= limit as u64 {
                return false;
            }
        }
        // a rate of 1000 is a per-run switch: no draw from the fault tape
        let hit = rate >= 1000 || g.fault.chance(rate, 1000);
        if hit {
            *g.fail_hits.entry(site).or_insert(0) += 1;
            g.hash.u64(0xFA11);
            g.hash.str(site);
        }
        hit
    }

    fn event(&self, kind: &'static str, a: u64, b: u64, c: u64) {
        let mut g = self.inner.lock().unwrap();
        match kind {
            "extent_pin" => {
                g.pin_events += 1;
                g.pins.entry(a).or_insert((b, c, 0)).2 += 1;
            }
            "extent_unpin" => {
                let gone = match g.pins.get_mut(&a) {
                    Some(pin) => {
                        pin.2 = pin.2.saturating_sub(1);
                        pin.2 == 0
                    }
                    None => false,
                };
                if gone {
                    g.pins.remove(&a);
                }
            }
            _ => {}
        }
    }
}
