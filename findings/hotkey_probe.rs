use feoxdb::FeoxStore;
use std::sync::atomic::{AtomicBool, Ordering};
use std::sync::Arc;
use std::time::{Duration, Instant};

fn main() {
    let path = format!("/dev/shm/hotkey-probe-{}.feox", std::process::id());
    let _ = std::fs::remove_file(&path);
    let store = Arc::new(
        FeoxStore::builder()
            .device_path(path.clone())
            .file_size(64 * 1024 * 1024)
            .hash_bits(10)
            .build()
            .unwrap(),
    );
    let stop = Arc::new(AtomicBool::new(false));
    let writers: usize = std::env::args().nth(1).and_then(|s| s.parse().ok()).unwrap_or(1);
    let mut handles = Vec::new();
    for w in 0..writers {
        let (s, st) = (Arc::clone(&store), Arc::clone(&stop));
        handles.push(std::thread::spawn(move || {
            let key = format!("hot-{w}");
            let mut n = 0u64;
            while !st.load(Ordering::Relaxed) {
                n += 1;
                s.insert(key.as_bytes(), format!("value-{n:020}").as_bytes()).unwrap();
            }
            n
        }));
    }
    let start = Instant::now();
    let mut last = 0;
    let mut worst_stall = Duration::ZERO;
    let mut last_progress = Instant::now();
    while start.elapsed() < Duration::from_secs(5) {
        std::thread::sleep(Duration::from_millis(50));
        let flushed = store.stats().writes_flushed;
        if flushed != last {
            last = flushed;
            last_progress = Instant::now();
        } else {
            worst_stall = worst_stall.max(last_progress.elapsed());
        }
    }
    stop.store(true, Ordering::Relaxed);
    let total: u64 = handles.into_iter().map(|h| h.join().unwrap()).sum();
    println!("writers={writers} inserts={total} writes_flushed={last} worst_stall={worst_stall:?}");
    drop(store);
    let _ = std::fs::remove_file(&path);
}
