// Real-system probe for the C12 known finding (no simulator, no hooks): one key written with the
// explicit timestamp u64::MAX - 1 makes unrelated keys of the same version-clock shard (1 of 64)
// unusable: their first automatic write is given the version u64::MAX, every later automatic
// write, delete, increment, swap, patch or TTL change on them is refused with OlderTimestamp.
//
// Run in a scratch copy of the repository:
//   cp findings/collateral_pin_probe.rs <copy>/examples/ && cargo run --release --offline --example collateral_pin_probe
use feoxdb::{FeoxError, FeoxStore};

fn main() {
    let store = FeoxStore::new(None).unwrap();
    store
        .insert_with_timestamp(b"billing:far-future", b"v", Some(u64::MAX - 1))
        .unwrap();
    let mut refused = Vec::new();
    for i in 0..2000u32 {
        let key = format!("unrelated:{i}");
        store.insert(key.as_bytes(), b"first").unwrap();
        match store.insert(key.as_bytes(), b"second") {
            Ok(_) => {}
            Err(FeoxError::OlderTimestamp) => refused.push(key),
            Err(e) => panic!("unexpected error {e:?}"),
        }
    }
    println!(
        "{} of 2000 unrelated keys refuse their second automatic write with OlderTimestamp (first three: {:?})",
        refused.len(),
        &refused[..refused.len().min(3)]
    );
    if let Some(k) = refused.first() {
        println!("delete({k}) -> {:?}", store.delete(k.as_bytes()));
        println!("get({k}) -> {:?}", store.get(k.as_bytes()).map(|v| String::from_utf8_lossy(&v).into_owned()));
    }
    std::process::exit(if refused.is_empty() { 0 } else { 1 });
}
