#!/bin/bash
# tools/confirm_round5.sh <ID> <demo target args...>   e.g. tools/confirm_round5.sh C14 --test range_bounds_across_prefixes
# copies /tmp/seed5_<ID>/OUT to seeded/<ID>-5 and confirms in the author's scratch worktree (suite passes with the
# change, demonstration fails with it and passes without it)
set -u
cd "$(dirname "$0")/.."
ID="$1"; shift
d=seeded/$ID-5; mkdir -p $d
cp /tmp/seed5_$ID/OUT/patch.diff /tmp/seed5_$ID/OUT/demo.diff /tmp/seed5_$ID/OUT/notes.md $d/ 2>/dev/null
DEMO_TARGET="$*" tools/confirm_seeded2.sh /tmp/seed5_$ID $ID-5 "" 2>&1 | tail -12
