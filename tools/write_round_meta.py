#!/usr/bin/env python3
"""tools/write_round_meta.py <round> <meta-table.json> <detected.json>   writes seeded/<ID>-<round>/meta.json
detected.json: {ID: "text of detected_by"}"""
import json, os, sys
root = os.path.dirname(os.path.dirname(os.path.abspath(__file__)))
rnd = sys.argv[1]; table = json.load(open(sys.argv[2])); det = json.load(open(sys.argv[3]))
for pid, t in table.items():
    d = f"{root}/seeded/{pid}-{rnd}"
    if not os.path.isdir(d):
        continue
    meta = {"property": pid, "round": int(rnd), "file": t["file"], "summary": t["summary"], "needs": t["needs"],
            "detected_by": det.get(pid, "pending"), "patch": "patch.diff", "demonstration": "demo.diff",
            "demonstration_command": "CARGO_NET_OFFLINE=true cargo test --offline " + t["demo"],
            "author_notes": "notes.md", "confirmation_log": "confirm.log",
            "what_i_ran": f"tools/confirm_round.sh {rnd} <ID> (tools/confirm_seeded2.sh in the author's scratch worktree: suite with the change, demonstration with the change, demonstration without it); tools/try_round_snap.sh {rnd} <ID> under `vp run --with-repo` (quick check of <ID> against the change applied to a snapshot of the repository) and/or tools/try_patch.sh patch.diff <ID> quick against /repo, reverted afterwards"}
    json.dump(meta, open(d + "/meta.json", "w"), indent=1)
print("ok")
