#!/bin/bash
# tools/confirm_seeded.sh <worktree> <ID> <demo-test-filter>
# Confirms in the scratch worktree: suite passes with the change, demo fails with it, demo passes without it.
# Then stores patch, demo and a log under /verif/seeded/<ID>/.
set -u
WT="$1"; ID="$2"; FILTER="$3"; DEMO_ARGS="${4:---lib $3}"
export CARGO_NET_OFFLINE=true
cd "$WT" || exit 2
OUT=/verif/seeded/$ID; mkdir -p "$OUT"
LOG="$OUT/confirm.log"; : > "$LOG"
say() { echo "$@" | tee -a "$LOG"; }
git diff --quiet -- src/tests/mod.rs 2>/dev/null
# state as left by the agent: source patch applied, demo registration possibly not applied
[ -f SEEDED_PATCH.diff ] || { say "no SEEDED_PATCH.diff"; exit 2; }
git apply -R --check SEEDED_PATCH.diff 2>/dev/null || git apply SEEDED_PATCH.diff || { say "cannot establish patched state"; exit 2; }
if [ -f SEEDED_DEMO.diff ]; then git apply -R --check SEEDED_DEMO.diff 2>/dev/null && git apply -R SEEDED_DEMO.diff; fi
say "== 1. full suite with the change (demo not registered)"
cargo test --offline --workspace --no-fail-fast -j 8 > "$OUT/suite_with_change.txt" 2>&1; rc=$?
grep -E "^test result" "$OUT/suite_with_change.txt" | tee -a "$LOG"; say "suite rc=$rc"
[ -f SEEDED_DEMO.diff ] && git apply SEEDED_DEMO.diff
say "== 2. demo with the change (must fail)"
cargo test --offline -j 8 $DEMO_ARGS > "$OUT/demo_with_change.txt" 2>&1; rc_with=$?
grep -E "^test result|panicked|FAILED" "$OUT/demo_with_change.txt" | head -8 | tee -a "$LOG"; say "demo-with rc=$rc_with"
say "== 3. demo without the change (must pass)"
git apply -R SEEDED_PATCH.diff
cargo test --offline -j 8 $DEMO_ARGS > "$OUT/demo_without_change.txt" 2>&1; rc_without=$?
grep -E "^test result" "$OUT/demo_without_change.txt" | tee -a "$LOG"; say "demo-without rc=$rc_without"
git apply SEEDED_PATCH.diff
cp SEEDED_PATCH.diff "$OUT/patch.diff"
[ -f SEEDED_DEMO.diff ] && cp SEEDED_DEMO.diff "$OUT/demo_registration.diff"
[ -f SEEDED_NOTES.md ] && cp SEEDED_NOTES.md "$OUT/notes_from_author.md"
for f in $(git status --porcelain | grep '^??' | awk '{print $2}' | grep -E "\.rs$"); do mkdir -p "$OUT/demo/$(dirname $f)"; cp "$f" "$OUT/demo/$f"; done
if [ $rc -eq 0 ] && [ $rc_with -ne 0 ] && [ $rc_without -eq 0 ]; then say "CONFIRMED $ID"; else say "NOT CONFIRMED $ID"; fi
