#!/bin/bash
# tools/try_round_snap.sh <round> <ID>...   for `vp run --with-repo`: run the quick check of each <ID> against the seeded
# change /tmp/seed<round>_<ID>/OUT/patch.diff applied to the repository SNAPSHOT ($VP_RUN_REPO), with the snapshot of
# /verif built against it - /repo and /verif stay untouched, so work can go on there. Prints VIOLATION lines and exit codes.
set -u
cd "$(dirname "$0")/.."
[ -n "${VP_RUN_REPO:-}" ] || { echo "needs vp run --with-repo"; exit 2; }
R="$1"; shift
sed -i "s#path = \"/repo\"#path = \"$VP_RUN_REPO\"#" sim/Cargo.toml fine/Cargo.toml
cp "$VP_RUN_REPO/Cargo.lock" /dev/null 2>&1
for id in "$@"; do
  P=/tmp/seed${R}_$id/OUT/patch.diff
  [ -f "$P" ] || P="$PWD/seeded/$id-$R/patch.diff"
  echo "== $id-$R"
  if ! (cd "$VP_RUN_REPO" && git apply "$P"); then echo "does not apply"; continue; fi
  out=$(./check "$id" quick 2>&1); rc=$?
  echo "$out" | grep -a -E "^VIOLATION|rule:|quick:|HARNESS" | head -8
  echo "exit=$rc"
  (cd "$VP_RUN_REPO" && git apply -R "$P") || echo "REVERT FAILED for $id"
done
