#!/bin/bash
# tools/try_round.sh <round> <ID>...   copy /tmp/seed<round>_<ID>/OUT to seeded/<ID>-<round> and run the quick check of <ID>
# against the change (applied to /repo and reverted by try_patch.sh). Prints the VIOLATION lines and the exit code.
set -u
cd "$(dirname "$0")/.."
R="$1"; shift
for id in "$@"; do
  d=seeded/$id-$R; mkdir -p $d; cp /tmp/seed${R}_$id/OUT/* $d/ 2>/dev/null
  echo "== $id-$R"
  tools/try_patch.sh $d/patch.diff $id quick 2>&1 | grep -a -E "^VIOLATION|rule:|quick:|exit=|does not apply" | head -7
done
