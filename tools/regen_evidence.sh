#!/bin/bash
# tools/regen_evidence.sh [ID...]   run the quick check of every (or the given) property on the unchanged tree, one after the
# other on an otherwise idle machine, so that the committed evidence files describe ordinary runs. Prints one line per check.
set -u
cd "$(dirname "$0")/.."
if ! git -C /repo diff --quiet; then echo "/repo has local modifications; refusing" >&2; exit 2; fi
IDS=("$@"); [ ${#IDS[@]} -eq 0 ] && IDS=(C01 C02 C03 C04 C05 C07 C08 C09 C10 C11 C12 C13 C14 C15 C16 C17 C18 C19 C20)
for p in "${IDS[@]}"; do
  out=$(./check "$p" quick 2>&1); rc=$?
  echo "$p exit=$rc $(echo "$out" | grep -a -E "quick:" | tail -1)"
  echo "$out" | grep -a -E "^VIOLATION|^HARNESS|rule:" | head -6
done
