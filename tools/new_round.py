#!/usr/bin/env python3
"""tools/new_round.py <round> <flavours.json>   scratch worktrees /tmp/seed<round>_<ID> of /repo HEAD with OUT/PROPERTY.md
(property text + mechanisms already taken, from seeded/*/meta.json) and OUT/PROMPT.txt for an independent author."""
import json, glob, os, subprocess, sys
root = os.path.dirname(os.path.dirname(os.path.abspath(__file__)))
rnd, flav = sys.argv[1], json.load(open(sys.argv[2]))
props = {json.loads(l)['id']: json.loads(l) for l in open(root + '/properties.jsonl')}
taken = {}
for d in sorted(glob.glob(root + '/seeded/*/meta.json')):
    m = json.load(open(d))
    pid = os.path.basename(os.path.dirname(d)).split('-')[0]
    taken.setdefault(pid, []).append(m.get('summary') or '')
tmpl = open(root + '/tools/seed_prompt_template.txt').read()
for pid, flavour in flav.items():
    wt = f'/tmp/seed{rnd}_{pid}'
    if not os.path.exists(wt):
        subprocess.run(['git', '-C', '/repo', 'worktree', 'add', '--detach', '-q', wt, 'HEAD'], check=True)
    os.makedirs(wt + '/OUT', exist_ok=True)
    p = props[pid]
    txt = (f"# Property {p['id']}: {p['title']}\n\n## Statement\n{p['statement']}\n\n## Quantifier\n{p['quantifier']['text']}\n\n"
           f"## Why the existing tests cannot settle it\n{p['why_tests_cant']}\n\n## Code anchors\n```json\n{json.dumps(p['anchors'], indent=1)}\n```\n\n"
           "## Mechanisms already used by earlier authors for this property (do NOT reuse these or close variants)\n")
    for t in taken.get(pid, []):
        txt += f"- {t}\n"
    open(wt + '/OUT/PROPERTY.md', 'w').write(txt)
    open(wt + '/OUT/PROMPT.txt', 'w').write(tmpl.replace('__WT__', wt).replace('__FLAVOUR__', flavour))
print(len(flav), 'worktrees')
