#!/usr/bin/env python3
"""Regenerates /verif/MANIFEST.json from the table below (kept in one place so that the
claimed checks, engines and not-applicable list stay consistent)."""
import json, subprocess, os

ROOT = os.path.dirname(os.path.dirname(os.path.abspath(__file__)))

TECH = "deterministic simulation with fault injection: seeded search over schedules, clocks, faults and crash points; "

CHECKS = {
 "C01": dict(engine="seq", level="exploration", ref="DESIGN.md 5 C01",
   technique=TECH + "sequential runs against an executable reference model, flush workers interleaved by the seeded scheduler",
   text="Every call of seeded single-client workloads (full API incl. flush, settle, clean reopen, clock moves) is compared with a sequential last-writer-wins reference model: result, post-state of the key (timestamp, expiry, length via the read-only snapshot hook), len()/memory_usage(), periodic full read-back and range query, independent decode of the durable image at every acknowledged flush. Configurations are swarm-sampled over {memory, persistent} x {cache} x {ttl} x {v1,v2,v3}; the tier a value is read from is decided by the scheduler's interleaving of the real flush workers. Exploration level: a clean batch is evidence over the sampled seeds.",
   note="Trusts: the reference model (sim/src/model.rs), the independent codec (sim/src/codec.rs), serde_json/json-patch as JSON oracle; preemption only at seams; fault-free device (faults are C09's business)."),
 "C02": dict(engine="crash", level="fault_enumeration", ref="DESIGN.md 5 C02",
   technique=TECH + "crash at device-call boundaries after an acknowledgement, enumerated loss/reorder/tear families of the un-fsynced writes, recovery in a fresh handle against the per-key history",
   text="Workloads of 1-3 single-writer clients with flushes as acknowledgement points run under the seeded scheduler on a simulated device that distinguishes page cache from durable image. Power is cut at sampled (quick) or every (thorough, 1 in 3 workloads) device-call boundary after the first acknowledgement; for each instant a family of images is built from the writes not covered by a completed fsync (none, all, every subset when <= 3-5 writes, prefixes, single drops, sector- or block-granular tearing of each write, random subsets); every image is recovered in a fresh handle after a simulated process restart and each key must carry a state of its own history not older than the last state covered by the last completed flush. Fault enumeration over sampled workloads.",
   note="A second stage (fault engine) covers acknowledgements handed out after transient device failures: what was acknowledged after the device healed must be in the durable image and survive recovery. Acknowledgement = flush() returned Ok, or (a third of the runs) the clean drop of the store at the end of the workload returned on a device that can hold what was buffered - crash points then also fall inside and after the close; coverage = state changes whose call returned before the flush was invoked (global event numbers). Device model: 512-byte atomic sectors, honest fsync."),
 "C03": dict(engine="crash", level="fault_enumeration", ref="DESIGN.md 5 C03",
   technique=TECH + "crash at any device-call boundary incl. first initialisation, forged record/marker images inside values, full authenticity oracle and probe workload after recovery",
   text="Same engine as C02 with crash instants over the whole trace (including the very first metadata initialisation and retirements), values whose continuation blocks are byte-exact record heads and retirement markers for the sectors they are predicted to land on, 512-byte and 4096-byte tearing modes; reopen must succeed, every exposed key must carry one complete generation (value, timestamp, expiry) of its own history, no foreign key, len() = exposed keys, partition invariant holds, and the store must accept a probe workload whose flush makes the durable image decode (independent codec) to exactly its contents.",
   note="Same device model as C02; ghost keys are detected because no workload ever writes them. A second stage (crash engine, nested profile) cuts the power again inside recovery's own repair writes: the file must still reopen."),
 "C04": dict(engine="crash", level="fault_enumeration", ref="DESIGN.md 5 C04",
   technique=TECH + "nested crash injection inside recovery's own repair writes, repeated reopen, write-trace vs live-extent intersection",
   text="Crash images of the C03 engine are recovered (R1), reopened again k times without writing (contents must equal R1 up to expiry), recovered again with a power cut at sampled/every device call of recovery's own writes with loss/tear families (nested, depth <= 2) - contents must equal R1 - and the blocks recovery writes are intersected with the extents of R1's live records.",
   note="Nested depth 2; clock not frozen, so keys whose expiry passes between recoveries may disappear (accounted for). A second stage (bigrec engine) recovers synthesised images that need more than 1024 separate retirements, i.e. several journal transactions, and cuts the power around every barrier of that recovery."),
 "C05": dict(engine="seq", level="exploration", ref="DESIGN.md 5 C05",
   technique=TECH + "partition invariant monitor at quiescent points of simulated runs",
   text="At every acknowledged flush with empty buffers and retirement queue the data area is checked to be exactly partitioned into live extents and maximal free runs, the allocator's own totals are recomputed, the persisted metadata counters are compared with the independently decoded durable image, and an OutOfSpace flush must be justified by the buffered extents not fitting the largest free run; after the workload every key is deleted and the emptied device must offer exactly one free run over the whole data area. A second stage recovers crash images of overwrite-heavy workloads on 24-96 block devices (crash engine, profile C05) and checks the same partition after recovery and after a probe workload: recovery must neither leak nor double-book a block.",
   note="Quiescent points only; small devices (24-256 data blocks); the sequential stage is fault-free, the crash stage loses/tears un-fsynced writes."),
 "C07": dict(engine="conc", level="exploration", ref="DESIGN.md 5 C07",
   technique=TECH + "2-4 simulated clients on shared keys; the hashed index is sampled at every scheduling step, giving the exact install order of generations, against which every call is attributed and justified",
   text="2-4 client threads issue short sequences (get, insert, delete, compare-and-swap, increment, insert-if-absent, JSON patch, TTL update, flush) on 1-3 shared keys, memory-only and persistent with the real flush workers, under random / sticky / PCT / starve-one schedules with preemption at every seam incl. the optimistic-read -> guarded-swap windows. The per-key sequence of installed generations (timestamp, length, expiry) is observed at every scheduling step; every successful modification must be attributable one-to-one to an installed generation inside its call interval (global event numbers), every transition must go to a strictly newer timestamp, created/swapped/incremented results must fit the predecessor generation (no lost increment, one winner per expected state), and every read, refusal or no-swap must be justified by a state inside the call interval or by one of the two conservative deviations of the property. Exploration level.",
   note="Linearisation order is taken from the observed install order (trusts the read-only snapshot hook); preemption only at seams; values have unique lengths so that generations are identifiable; where generations cannot be told apart (8-byte counters installed at the same event stamp) every consistent attribution is tried and a violation is reported only if none explains the history. A directed family deletes and re-creates a key with exactly its previous explicit timestamp while a read-modify-write is in flight. A second, sequential stage (reference-model engine) covers what unique value lengths exclude from the concurrent one: swaps and patches that leave the value unchanged must still install a new generation with the new version."),
 "C08": dict(engine="conc", level="exploration", ref="DESIGN.md 5 C08",
   technique=TECH + "readers against writers/flusher on tiny devices with immediate block reuse; per-read genuineness oracle plus device-side monitor of writes over pinned extents",
   text="Persistent stores on 8-16 block devices (freed blocks are reused at once), cache on and off, single- and multi-block values: readers (get, get_bytes, range, compare-and-swap, increment) race writers, deleters, TTL rewrites, explicit flushes and the background workers, with yield sites around pin / sector load / pread / identity check and between retire, marker write and release. Each read must return byte-for-byte a value written to that key whose generation was current inside the call interval, not-found only if the key was absent/expired inside it, StaleExtent only if a modification overlapped; the simulated device flags any write that overlaps an extent a reader has pinned.",
   note="Same trust base as C07; pin events come from the hook in load_value_from_disk / prepare_deferred_record_data."),
 "C09": dict(engine="fault", level="fault_enumeration", ref="DESIGN.md 5 C09",
   technique=TECH + "device faults enumerated against the fault-free device trace (each write/fsync call failing before/after the bytes reached the device, pairs, persistent failure) plus random short writes, ENOSPC and read errors; healing phase",
   text="Each sampled workload is first run fault-free to record its device trace, then re-run with one fault per chosen device call (quick: sampled calls; thorough: every write and fsync call x {fail-before, fail-after} for a third of the workloads), with pairs, with persistent failure from a call on, and with random faults (short writes, ENOSPC, failed fsync whose writes become limbo, read errors). Oracles: a flush() that returns Ok is checked on the durable image with the independent decoder; after failed flushes every key still reads its latest accepted value; copies of the device as it stands and of what a power loss would leave are recovered in a second handle and must hold, per key, a state no older than the last acknowledged one; after the faults stop, a flush succeeds within three attempts or reports IndeterminateWrite, in which case drop + simulated process restart + reopen must succeed and new writes flush.",
   note="fsync failure model: pending writes become limbo (readable, never made durable by a later fsync, may or may not be on the platter) until overwritten by later durable writes. io_uring path not exercised."),
 "C10": dict(engine="seq", level="exploration", ref="DESIGN.md 5 C10",
   technique=TECH + "independent decoder of the documented layout applied to the durable image at every acknowledged flush",
   text="After each acknowledged flush of seeded workloads on v1, v2 and v3 devices the durable image (what survives power loss) is decoded by a reader written from the documented layout only; it must contain exactly the model's keys with value, timestamp and expiry, a clear journal and metadata counters equal to the live totals; legacy devices must keep their own record format.",
   note="Decoder shares no code with the crate. Stage 2 (golden): device files written by the pinned release (v3 created by it; v1/v2 empty legacy devices written to by it in compatibility mode; /verif/golden with expected contents) are decoded independently, opened on the current tree, compared, written to and re-decoded (format version and untouched records must be preserved). Stage 3: legacy images produced by the independent writer and by simulated compatibility-mode workloads are opened and migrated (migr engine)."),
 "C11": dict(engine="seq", level="exploration", ref="DESIGN.md 5 C11",
   technique=TECH + "virtual clock positioned exactly at expiry-1/expiry/expiry+1 against the reference model",
   text="TTL workloads with the simulator owning the clock: the wall clock is set exactly to expiry-1, expiry and expiry+1 of model keys, jumped forwards/backwards, and every value-reading call must see the key iff now <= expiry; absolute expiry must be unchanged by flush and clean restart; TTL-only updates on offloaded keys keep the value.",
   note="Stage 1 sequential (exact clock control); stage 2 concurrent: sweeper thread with 1-50 ms interval against renewing/replacing writers and readers, oracle from the observed install sequence (only an expired generation may disappear without a call accounting for it)."),
 "C12": dict(engine="seq", level="exploration", ref="DESIGN.md 5 C12",
   technique=TECH + "observed automatic timestamps checked against per-key history under clock faults",
   text="Mixes of automatic and explicit (past, future, extreme) timestamps over all operation kinds with frozen and jumping clocks, across flush and clean restart; each automatic timestamp observed through the snapshot hook must exceed the key's previous timestamp and every timestamp accepted or recovered for it; automatic calls must not be answered OlderTimestamp unless the key sits at u64::MAX because of its own history (a key pushed to u64::MAX by a neighbour of its clock shard is the known finding listed in known_findings.json). A second stage crashes workloads that carry versions hours, years and almost 2^64 ns ahead of the clock, recovers every image and demands that automatic writes on recovered and on fresh keys are accepted with versions above the recovered ones. A third stage (conc engine, TTL profile with the background sweeper) includes a directed family in which a key arrives already expired and one client follows up with automatic writes in the same clock tick while the sweeper retires the expired generation: no automatic call may be refused as older without a concurrent writer.",
   note="Sequential histories plus crash recovery (crash engine, profile C12). One KNOWN-FINDING (collateral pinning at u64::MAX through the shared version clock) is printed on the unchanged tree."),
 "C13": dict(engine="seq", level="exploration", ref="DESIGN.md 5 C13",
   technique=TECH + "exact accounting oracle after every simulated call",
   text="memory_usage() and len() are compared with the model's sum(overhead + key + value) after every call of seeded workloads, including refused writes under tight limits, growing/shrinking updates, expiries and clean restarts; at the end every key is deleted and both must read zero.",
   note="Stage 1 sequential exact accounting; stage 2 concurrent: creators/growers/deleters against tight limits with memory_usage() <= limit evaluated at every scheduling step and exact sums at quiescence; stage 3: accounting after every crash recovery (duplicate generations on disk)."),
 "C14": dict(engine="seq", level="exploration", ref="DESIGN.md 5 C14",
   technique=TECH + "range queries against the ordered reference model on every tier",
   text="Range queries with arbitrary bounds (empty, extreme, start > end, neighbours of keys) and limits are compared exactly with the reference model on every tier; ordered and hashed index are compared at quiescence.",
   note="Stage 1 sequential exact comparison; stage 2 concurrent scans against writers with a yield per scanned entry: ascending, in bounds, <= limit, genuine current values, stable keys exactly once, absent keys never."),
 "C18": dict(engine="conc", level="exploration", ref="DESIGN.md 5 C18",
   technique=TECH + "exact deadlock detection by the scheduler (no enabled thread, no pending timer) and bounded virtual-time liveness on contention workloads",
   text="Contention workloads (concurrent flush() callers with writers and readers on the same keys, tiny/full devices, multi-block values, 1-3 shards and workers) under all scheduler strategies; because shimmed locks, channels, sleeps and joins are scheduling points, a thread can be parked while holding the device or free-space lock, so lock-order inversions and lost wake-ups are reachable. The scheduler reports deadlock exactly (with the wait-for state of every thread), any call running longer than 120 virtual seconds, and a real hang is caught by a wall-clock watchdog and confirmed by replay.",
   note="Stage 1 of the design (fault-free contention); failing/dead-device stages are added with the fault engine."),
 "C15": dict(engine="migr", level="exploration", ref="DESIGN.md 5 C15",
   technique=TECH + "legacy images from simulated compatibility-mode workloads (clean and crashed) and from the independent writer, migrate() under a simulated destination device with injected faults",
   text="Sources are v1/v2 images produced by the current tree in compatibility mode under the simulator (clean closes and crash images with active journals and pending retirements) and images synthesised by the independent writer (duplicates in both disk orders, expired newest generations, multi-block records, >256 records, new-style and ambiguous legacy markers). migrate() runs with and without the opt-in, with an existing destination, with a destination that a second simulated thread creates while the copy is under way (it must survive and the migration must fail), and with write/fsync faults injected into the destination device. Checked: zero writes to and unchanged bytes of the source; on error nothing at the destination path and no temporary sibling; on success the destination decodes (independent codec) as v3 with exactly the source's keys, values, timestamps and absolute expiries, equals a TTL-disabled recovery of a copy of the source, and survives a power loss right after migrate() returned; ambiguous markers fail unless allowed.",
   note="The feox-migrate binary's argument handling is not simulated (covered by the repository's CLI tests)."),
 "C17": dict(engine="corr", level="exploration", ref="DESIGN.md 5 C17",
   technique=TECH + "stored-data corruption as the injected fault: field-aware forging (with recomputed checksums/tokens), bit flips, block swaps/duplication/truncation, random images, invalid sizes",
   text="Valid v1/v2/v3 images from simulated workloads (clean and crashed: live, retired, journalled, multi-block extents) are damaged by 1-6 edits chosen from: bit flips (anywhere / reserved area / record heads), block swap, duplication, zeroing, truncation, forged key/value lengths, timestamps, expiries, tokens (optionally re-stamped so the token check passes), forged retirement markers, forged journal slots (counts, states, extents, generations, with or without a valid checksum), forged metadata (version, sizes, generation, checksum flag), broken signatures, legacy markers; plus random images, invalid sizes, and files of 1.2-2.7 MiB that are empty at their start and foreign further on (beyond the first scan window). Opening runs under catch_unwind inside the simulator (step budget and virtual-time liveness bound catch loops): it must return Ok or Err; an opened store must answer a probe workload and be dropped without panicking; a file without valid FeOx metadata or of invalid size must be rejected with zero device writes. Built with overflow checks and debug assertions on.",
   note="Allocation failure is not injected; a worker killed by the OS (abort) is reported via the crash path."),
 "C19": dict(engine="live", level="exploration", ref="DESIGN.md 5 C19",
   technique=TECH + "virtual-time bounded-liveness: no explicit flush, durable image checked 1 virtual second after a modification, retirement after 2, for every shards x workers configuration",
   text="No client ever calls flush(). For shards 1-8 x workers 1-8 (the two CPU-count reads are set independently), 1-4 single-writer clients issue small workloads, 1100-1700-entry bursts of 1-byte values (crossing the 1024-entry batch) or 60+ virtual seconds of steady traffic. One virtual second after the last modification the durable image, decoded independently and recovered in a fresh handle, must hold every key's final state; after two virtual seconds the retirement queue and buffers must be empty, the partition invariant must hold and no superseded generation may remain on the device; in the steady variant every modification older than one second must be durable at every one-second checkpoint. Further families: hot-key runs (one key overwritten back to back for several virtual seconds with the flusher held after every drain, so that every generation it looks at is already superseded - three bounds at one-second checkpoints; in half of them the single worker owns two to four shards and the other clients write into the sibling shards while the hot one is busy), transient runs (the record-write fail point fires three or six times and then heals: the periodic trigger alone has to retry what the flusher gave up), slow-reader runs (a reader held between its extent pin and the end of its device read while the key is overwritten; the postponed retirement must complete within the bound after the reader left), swept runs (TTL keys flushed, expired and removed by the background sweeper; their extents must be retired on the device within the bound).",
   note="Virtual I/O latency: 10-20 us per read/write, 0.5 ms per fsync; fault-free. Half of all runs model parking_lot's writer-preferring RwLock (hook H7)."),
 "C16": dict(engine="seq", level="exploration", ref="DESIGN.md 5 C16",
   technique=TECH + "differential execution of the same tape with cache on and off under a frozen clock",
   text="The same operation tape is executed twice inside one simulated run, cache on and cache off, with the wall clock frozen so results are a function of the tape alone; the two result sequences must be identical call by call.",
   note="Stage 1 = part (a) differential; stage 2 = part (b): concurrent readers/writers on offloaded keys with the cache on (a stale hit is a read of a generation that was not current during the call). Stage 3 = part (c): ClockCache alone with 1 MB / 0-1 MB watermarks and 1 KB-500 KB values, sequentially against a model (exact accounting via the entry observer, no hit after remove, eviction reaches the low watermark, referenced entries survive when unreferenced ones suffice) and under 2-3 threads (accounting at quiescence, only genuine values)."),
 "C20": dict(engine="conc+cache+fault+corr+crash (AddressSanitizer build)", level="exploration", ref="DESIGN.md 5 C20",
   technique=TECH + "the concurrent, cache, fault, corruption and crash engines re-executed from the same seeds in a build instrumented with AddressSanitizer",
   text="`./check C20` builds the same harness crate a second time with `cargo +nightly -Zsanitizer=address` (feoxdb and every dependency instrumented, system allocator) and re-runs range scans racing updates/deletes with a yield between slot load and use (conc:C14), shared-key histories (conc:C07), readers against flush/retirement/reuse on tiny devices (conc:C08), the sweeper against writers (conc:C11), the CLOCK cache under 2-3 threads (cache), failed and short device writes (fault), damaged images with forged lengths (corr) and crash recoveries (crash). Oracle: no AddressSanitizer report, no abnormal termination; a worker that dies is attributed to its run, the run is re-executed from its seed in a fresh process and reported with the sanitizer's report.",
   note="Not exercised: the io_uring submission/completion code and the O_DIRECT aligned-buffer paths (InFlightBuffers, AlignedBuffer) - the simulated device uses the synchronous fallback; std itself is not instrumented; preemption only at seams."),
}

NOT_APPLICABLE = {
 "C06": "pure sequential in-memory data structure (FreeSpaceManager): no schedule, clock, I/O, fault or second party for a simulator to own; a seeded call-sequence generator against a bitmap model would be property-based testing, not this technique (DESIGN.md 5.21). The allocator is observed in situ under C05.",
}
PENDING = {}

def main():
    props = [json.loads(l)["id"] for l in open(os.path.join(ROOT, "properties.jsonl"))]
    hooks = subprocess.run(["git", "-C", "/repo", "log", "--format=%H %s", "--grep=^verif hook"],
                           capture_output=True, text=True).stdout.strip().splitlines()
    checks = []
    for pid in props:
        c = CHECKS.get(pid)
        if not c: continue
        checks.append({
            "property_id": pid,
            "quick_cmd": f"./check {pid} quick",
            "thorough_cmd": f"./check {pid} thorough",
            "evidence_file": f"/verif/evidence/{pid}.json",
            "replay_cmd_template": f"./check {pid} --replay {{path}}",
            "engine": c["engine"],
            "level_claimed": {"category": c["level"], "text": c["text"], "design_ref": c["ref"]},
            "level_note": c["note"],
            "technique": c["technique"],
        })
    na = []
    for pid in props:
        if pid in CHECKS: continue
        reason = NOT_APPLICABLE.get(pid) or PENDING.get(pid) or "check not built yet in this session (planned in DESIGN.md section 5); not claimed"
        na.append({"property_id": pid, "reason": reason})
    manifest = {
        "version": 1,
        "setup_cmd": "./check --build",
        "hooks": {
            "guard": "feoxdb_verif",
            "enable": "rustc cfg: RUSTFLAGS=\"--cfg feoxdb_verif\" (set by /verif/sim/.cargo/config.toml; the harness crate /verif/sim depends on /repo by path)",
            "baseline_off_cmd": "cd /repo && cargo test --workspace --no-fail-fast --offline",
            "source_commits": [h.split()[0] for h in hooks][::-1],
            "add_only": True,
        },
        "engines": [
            {"name": "simcheck", "path": "/verif/sim", "serves_properties": sorted(CHECKS.keys()),
             "kind_free_text": "deterministic simulator: baton scheduler over real OS threads, virtual clock, simulated block device with fault and crash injection, reference model, independent on-disk codec"},
        ],
        "checks": checks,
        "not_applicable": na,
        "notes": "All checks are `./check <ID> quick|thorough` (cwd=/verif). VERIF_SEED and VERIF_TIER are honoured; VERIF_WORKERS limits worker processes. exit 0 = held on everything explored, 1 = VIOLATION line printed, 2 = harness error.",
    }
    json.dump(manifest, open(os.path.join(ROOT, "MANIFEST.json"), "w"), indent=1)
    print("wrote MANIFEST.json with", len(checks), "checks,", len(na), "not claimed")

if __name__ == "__main__":
    main()
