#!/bin/bash
# tools/try_patch.sh <patch.diff> <PROPERTY> [tier]   apply a seeded change to /repo, run the check, undo it.
set -u
PATCH="$(readlink -f "$1")"; PROP="$2"; TIER="${3:-quick}"
if ! git -C /repo diff --quiet; then echo "/repo has local modifications; refusing" >&2; exit 2; fi
git -C /repo apply "$PATCH" || { echo "patch does not apply" >&2; exit 2; }
# the evidence file of a run against a modified tree must not replace the committed one
cp /verif/evidence/$PROP.json /dev/shm/evidence-$PROP.keep 2>/dev/null
trap 'git -C /repo checkout -- . ; git -C /repo clean -fdq src; [ -f /dev/shm/evidence-$PROP.keep ] && mv /dev/shm/evidence-$PROP.keep /verif/evidence/$PROP.json; /verif/check --build >/dev/null 2>&1' EXIT
/verif/check "$PROP" "$TIER"
echo "exit=$?"
