#!/bin/bash
# tools/try_patch.sh <patch.diff> <PROPERTY> [tier]   apply a seeded change to /repo, run the check, undo it.
set -u
PATCH="$(readlink -f "$1")"; PROP="$2"; TIER="${3:-quick}"
if ! git -C /repo diff --quiet; then echo "/repo has local modifications; refusing" >&2; exit 2; fi
git -C /repo apply "$PATCH" || { echo "patch does not apply" >&2; exit 2; }
trap 'git -C /repo checkout -- . ; git -C /repo clean -fdq src' EXIT
/verif/check "$PROP" "$TIER"
echo "exit=$?"
