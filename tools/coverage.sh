#!/bin/bash
# tools/coverage.sh [runs-scale]   line coverage of /repo/src reached by the simulated runs (not a check; a map of what
# the harness exercises and what it leaves to stubs). Needs the nightly toolchain's llvm-tools. Output: coverage/report.txt
set -u
cd "$(dirname "$0")/.."
SCALE="${1:-1}"
B=$(dirname "$(rustup +nightly which rustc)")/../lib/rustlib/x86_64-unknown-linux-gnu/bin
T=/dev/shm/target-cov; P=/dev/shm/cov; mkdir -p $P; rm -f $P/*.profraw
(cd sim && RUSTFLAGS="-C instrument-coverage --cfg feoxdb_verif" cargo +nightly build --release --offline --target-dir $T) || exit 2
export LLVM_PROFILE_FILE="$P/sim-%p-%m.profraw"
for spec in "seq:C01 6000" "seq:C05 6000" "seq:C10 3000" "seq:C11 6000" "seq:C12 3000" "seq:C13 3000" "seq:C14 3000" "seq:C16 3000" \
  "crash:C02 2500" "crash:C03 2500" "crash:C04 600" "crash:C05 1000" "crash:C11 1000" "conc:C07 20000" "conc:C08 30000" "conc:C11 20000" \
  "conc:C13 10000" "conc:C14 10000" "conc:C16 20000" "conc:C18 20000" "fault:C09 4000" "live:C19 2500" "migr:C15 4000" "migr:C10 1000" \
  "corr:C17 20000" "cache:C16 3000" "golden:C10 600"; do
  set -- $spec; n=$(python3 -c "print(max(1,int($2*$SCALE)))")
  $T/release/simcheck smoke $1 $n 2>&1 | grep -v "^feox" | tail -1
done
$B/llvm-profdata merge -sparse $P/*.profraw -o $P/all.profdata
$B/llvm-cov report $T/release/simcheck -instr-profile=$P/all.profdata --ignore-filename-regex='(\.cargo|rustc|rustlib|/verif/|src/tests|verif\.rs|verif_observe)' > coverage/report.txt 2>/dev/null
for f in core/store/migration.rs core/store/recovery.rs core/store/persistence.rs core/store/init.rs core/ttl_sweep.rs core/store/range.rs storage/write_buffer.rs storage/free_space.rs storage/allocation_journal.rs storage/format.rs; do
  echo "=== $f"; $B/llvm-cov show $T/release/simcheck -instr-profile=$P/all.profdata /repo/src/$f 2>/dev/null | grep -E "^ +[0-9]+\| +0\|" | grep -v -E "^\s*[0-9]*\|\s*0\|\s*[})\];,]*\s*$" | cut -c1-140
done > coverage/uncovered.txt
tail -40 coverage/report.txt
rm -rf $T $P
