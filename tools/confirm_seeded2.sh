#!/bin/bash
# tools/confirm_seeded2.sh <worktree> <ID-2> <demo-test-filter>
# Round-2 layout: <worktree>/OUT/{patch.diff,demo.diff,notes.md}. Confirms in the scratch worktree:
# suite passes with the change, demo fails with it, demo passes without it. Log -> /verif/seeded/<ID-2>/confirm.log
set -u
WT="$1"; ID="$2"; FILTER="$3"
export CARGO_NET_OFFLINE=true
cd "$WT" || exit 2
OUT=/verif/seeded/$ID; mkdir -p "$OUT"
LOG="$OUT/confirm.log"; : > "$LOG"
say() { echo "$@" | tee -a "$LOG"; }
git reset -q --hard HEAD; git clean -fdq -e OUT -e target
git apply OUT/patch.diff || { say "patch does not apply"; exit 2; }
say "== 1. full suite with the change (demo not applied)"
cargo test --offline --workspace --no-fail-fast -j 8 > "$OUT/suite_with_change.txt" 2>&1; rc=$?
grep -E "^test result" "$OUT/suite_with_change.txt" | tee -a "$LOG"; say "suite rc=$rc"
git apply OUT/demo.diff || { say "demo does not apply"; exit 2; }
say "== 2. demo with the change (must fail)"
cargo test --offline -j 8 ${DEMO_TARGET:---lib} $FILTER > "$OUT/demo_with_change.txt" 2>&1; rc_with=$?
grep -E "^test result|panicked|FAILED|signal" "$OUT/demo_with_change.txt" | head -8 | tee -a "$LOG"; say "demo-with rc=$rc_with"
say "== 3. demo without the change (must pass)"
git apply -R OUT/patch.diff
cargo test --offline -j 8 ${DEMO_TARGET:---lib} $FILTER > "$OUT/demo_without_change.txt" 2>&1; rc_without=$?
grep -E "^test result" "$OUT/demo_without_change.txt" | tee -a "$LOG"; say "demo-without rc=$rc_without"
if [ $rc -eq 0 ] && [ $rc_with -ne 0 ] && [ $rc_without -eq 0 ]; then say "CONFIRMED $ID"; else say "NOT CONFIRMED $ID"; fi
