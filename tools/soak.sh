#!/bin/bash
# tools/soak.sh <seed-list> <id-list>   run quick checks under several top-level seeds; print anything that is not a clean exit
# e.g. tools/soak.sh "1 2 3" "C01 C02"
set -u
cd "$(dirname "$0")/.."
# inside `vp run --with-repo` build against the repository snapshot, so that seeded patches
# applied to /repo meanwhile do not leak into the soak
if [ -n "${VP_RUN_REPO:-}" ] && [ "$(pwd)" != "/verif" ]; then
  sed -i "s#path = \"/repo\"#path = \"$VP_RUN_REPO\"#" sim/Cargo.toml fine/Cargo.toml
fi
./check --build || exit 2
for seed in $1; do
  for id in $2; do
    out=$(VERIF_SEED=$seed ./check "$id" "${SOAK_TIER:-quick}" 2>&1); rc=$?
    echo "seed=$seed $id rc=$rc $(echo "$out" | tail -1)"
    if [ $rc -ne 0 ]; then echo "$out" | grep -a -E "VIOLATION|rule:|HARNESS|KNOWN" -A 3 | head -30; fi
  done
done
