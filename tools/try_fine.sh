#!/bin/bash
# tools/try_fine.sh <patch.diff> <PROPERTY> [scale]   run only the fine-grained tier of a check against a seeded change
set -u
PATCH="$(readlink -f "$1")"; PROP="$2"; SCALE="${3:-1}"
if ! git -C /repo diff --quiet; then echo "/repo has local modifications; refusing" >&2; exit 2; fi
git -C /repo apply "$PATCH" || { echo "patch does not apply" >&2; exit 2; }
cp /verif/evidence/$PROP.json /dev/shm/evidence-$PROP.keep 2>/dev/null
trap 'git -C /repo checkout -- . ; git -C /repo clean -fdq src; [ -f /dev/shm/evidence-$PROP.keep ] && mv /dev/shm/evidence-$PROP.keep /verif/evidence/$PROP.json' EXIT
VERIF_ONLY_FINE=1 VERIF_SCALE=$SCALE /verif/check "$PROP" quick
echo "exit=$?"
