#!/bin/bash
# tools/confirm_round.sh <round> <ID> <demo target args...>   e.g. tools/confirm_round.sh 6 C14 --test range_after_ttl_change
# copies /tmp/seed<round>_<ID>/OUT to seeded/<ID>-<round> and confirms in the author's scratch worktree (suite passes
# with the change, demonstration fails with it and passes without it)
set -u
cd "$(dirname "$0")/.."
R="$1"; ID="$2"; shift; shift
d=seeded/$ID-$R; mkdir -p $d
cp /tmp/seed${R}_$ID/OUT/patch.diff /tmp/seed${R}_$ID/OUT/demo.diff /tmp/seed${R}_$ID/OUT/notes.md $d/ 2>/dev/null
DEMO_TARGET="$*" tools/confirm_seeded2.sh /tmp/seed${R}_$ID $ID-$R "" 2>&1 | tail -12
