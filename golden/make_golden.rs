// Generates golden device files with the PINNED release (no verification hooks).
// usage: make_golden <out-dir> <empty-v1-image> <empty-v2-image>
use feoxdb::FeoxStore;
use std::io::Write;

const BASE_TS: u64 = 1_750_000_000_000_000_000; // fixed explicit timestamps: contents are reproducible
const TEN_YEARS: u64 = 315_360_000;

fn value(tag: u8, len: usize) -> Vec<u8> {
    (0..len).map(|i| tag.wrapping_add((i % 251) as u8)).collect()
}

fn hex(b: &[u8]) -> String {
    b.iter().map(|x| format!("{x:02x}")).collect()
}

type Expected = Vec<(Vec<u8>, Vec<u8>, u64, u64)>;

fn put_one(store: &FeoxStore, ttl_ok: bool, expected: &mut Expected, key: Vec<u8>, val: Vec<u8>, ts: u64, ttl: u64) {
    if ttl > 0 && ttl_ok {
        store.insert_with_ttl_and_timestamp(&key, &val, ttl, Some(ts)).unwrap();
        expected.retain(|e| e.0 != key);
        expected.push((key, val, ts, ts + ttl * 1_000_000_000));
    } else {
        store.insert_with_timestamp(&key, &val, Some(ts)).unwrap();
        expected.retain(|e| e.0 != key);
        expected.push((key, val, ts, 0));
    }
}

fn populate(store: &FeoxStore, ttl_ok: bool, long_key_len: usize, expected: &mut Expected) {
    macro_rules! put {
        ($k:expr, $v:expr, $ts:expr, $ttl:expr) => {
            put_one(store, ttl_ok, expected, $k, $v, $ts, $ttl)
        };
    }
    put!(b"a".to_vec(), value(1, 1), BASE_TS + 1, 0);
    put!(b"key:one-block".to_vec(), value(2, 700), BASE_TS + 2, 0);
    put!(b"key:exact".to_vec(), value(3, 4096 - (4 + 2 + 9 + 24)), BASE_TS + 3, 0);
    put!(b"key:two-blocks".to_vec(), value(4, 5000), BASE_TS + 4, 0);
    put!(b"key:three-blocks".to_vec(), value(5, 9000), BASE_TS + 5, TEN_YEARS);
    put!(vec![b'L'; long_key_len], value(6, 40), BASE_TS + 6, 0);
    put!(b"counter".to_vec(), 41i64.to_le_bytes().to_vec(), BASE_TS + 7, 0);
    put!(b"doomed".to_vec(), value(7, 300), BASE_TS + 8, 0);
    put!(b"rewritten".to_vec(), value(8, 100), BASE_TS + 9, 0);
    store.flush().unwrap();
    // a delete and an overwrite, so that the file carries retirement markers
    store.delete_with_timestamp(b"doomed", Some(BASE_TS + 20)).unwrap();
    expected.retain(|e| e.0 != b"doomed");
    put!(b"rewritten".to_vec(), value(9, 6000), BASE_TS + 21, if ttl_ok { TEN_YEARS } else { 0 });
    let n = store.atomic_increment_with_timestamp(b"counter", 1, Some(BASE_TS + 22)).unwrap();
    expected.retain(|e| e.0 != b"counter");
    expected.push((b"counter".to_vec(), n.to_le_bytes().to_vec(), BASE_TS + 22, 0));
    store.flush().unwrap();
}

fn write_expected(path: &str, version: u32, expected: &[(Vec<u8>, Vec<u8>, u64, u64)]) {
    let mut f = std::fs::File::create(path).unwrap();
    writeln!(f, "{{\"version\": {version}, \"records\": [").unwrap();
    for (i, (k, v, ts, exp)) in expected.iter().enumerate() {
        writeln!(
            f,
            "  {{\"key\": \"{}\", \"value\": \"{}\", \"timestamp\": {ts}, \"expiry\": {exp}}}{}",
            hex(k),
            hex(v),
            if i + 1 < expected.len() { "," } else { "" }
        )
        .unwrap();
    }
    writeln!(f, "]}}").unwrap();
}

fn main() {
    let args: Vec<String> = std::env::args().collect();
    let out = &args[1];
    let size = (16 + 48) * 4096u64;
    // v3: created by the release itself
    {
        let path = format!("{out}/golden_v3.feox");
        let _ = std::fs::remove_file(&path);
        let mut expected = Vec::new();
        {
            let store = FeoxStore::builder().device_path(path.clone()).file_size(size).hash_bits(6).enable_ttl(true).build().unwrap();
            populate(&store, true, 4066, &mut expected);
        }
        write_expected(&format!("{out}/golden_v3.json"), 3, &expected);
    }
    // v1 / v2: empty legacy devices written to by the release in compatibility mode
    for (version, empty) in [(1u32, &args[2]), (2u32, &args[3])] {
        let path = format!("{out}/golden_v{version}.feox");
        std::fs::copy(empty, &path).unwrap();
        let mut expected = Vec::new();
        {
            let store = FeoxStore::builder().device_path(path.clone()).hash_bits(6).enable_ttl(version == 2).build().unwrap();
            populate(&store, version == 2, if version == 1 { 4074 } else { 4066 }, &mut expected);
        }
        write_expected(&format!("{out}/golden_v{version}.json"), version, &expected);
    }
    println!("ok");
}
